"""C13 - direct Fourier transform, preloaded variant and adjoint (DESIGN.md section 4, C13)."""
from __future__ import annotations

import ast

from ..keval import KEval, Ref
from ..poly import Poly, ZERO
from ..forms import check_accumulate, short
from .. import wire
from ..model import norm_text, AnchorMissing
from ..controls import Control
from ..mutate import in_func

TU = "autoarray.operators.transformer_util"
TR = "autoarray.operators.transformer"
IU = "autoarray.inversion.inversion.interferometer.inversion_interferometer_util"
IM = "autoarray.inversion.inversion.interferometer.mapping"
PI2 = Poly.const(2) * Poly.sym("pi")
J = Poly.sym("J")


def S_(n):
    return Poly.sym(n)


def phase(G: str, U: str, p: Poly, k: Poly, sign: int) -> Poly:
    """sign * 2 pi (x_p u_k + y_p v_k) with x = G[:,1], y = G[:,0], u = U[:,0], v = U[:,1]"""
    c1, c0 = Poly.const(1), ZERO
    return Poly.const(sign) * PI2 * (Poly.elem(G, p, c1) * Poly.elem(U, k, c0) + Poly.elem(G, p, c0) * Poly.elem(U, k, c1))


def need_params(f, *names):
    for n in names:
        if n not in f.all_params:
            raise AnchorMissing(f"{f.key}: parameter '{n}'")


def _empty_row_skip(c, bound) -> bool:
    """rows of the mapping matrix without any non-zero entry may be skipped as a whole (every term of such a row is 0 x something): the guard `row p of mapping_matrix
    has a non-zero entry`, however the rows were selected (KEval: Cond 'rowany'); a selection by the SUM of the signed entries is not this guard"""
    return c.kind == "rowany" and c.args[0] == "mapping_matrix" and Poly.sym(c.args[1]) == bound.get("p")


def run(ctx):
    p = ctx.p
    K = KEval(p)
    ctx.rule("C13.phase", "every forward DFT kernel accumulates I_p * (cos(phi) + i sin(phi)) with phi = -2 pi (x_p u_k + y_p v_k), "
             "x = grid[:,1], y = grid[:,0], u = uv[:,0], v = uv[:,1], over the full pixel and baseline ranges onto zeros; "
             "canonical-form equality of the accumulated term (E4)")
    ctx.rule("C13.adjoint", "image_via_jit_from accumulates Re(V_k) cos(psi) - Im(V_k) sin(psi) with psi = +2 pi (x_p u_k + y_p v_k): "
             "the real part of the conjugate-transpose operator")
    ctx.rule("C13.preload", "the preloaded kernels use table entry [p, k] of the cos / sin tables exactly where the direct kernels use cos(phi) / sin(phi)")
    ctx.rule("C13.lin", "matrix kernels are the vector operator per column for every real entry: the only guard is a zero-test of the entry (E7)")
    ctx.rule("C13.wiring", "TransformerDFT builds both preload tables from the same (grid, uv); preload / direct branches are selected only by "
             "preload_transform and are handed the same image form, grid and baselines (sibling agreement of bound arguments)")
    ctx.rule("C13.normal", "interferometer data vector pairs real with real and imaginary with imaginary parts of data, operator and noise and sums the two; "
             "curvature is the sum of the real and imaginary Gram products with the matching noise parts")

    # ---- preload tables
    for name, trig in (("preload_real_transforms", "cos"), ("preload_imag_transforms", "sin")):
        f = p.func(f"{TU}:{name}")
        need_params(f, "grid_radians", "uv_wavelengths")
        S = K.summarize(f)
        out = S.returned_array_names()
        if len(out) != 1:
            ctx.ob("C13.phase", f.key, None, message=f"expected one returned array, got {out}")
            continue
        roles = {"p": [S_("grid_radians.shape[0]")], "k": [S_("uv_wavelengths.shape[0]")]}
        check_accumulate(ctx, "C13.phase", S, out[0], roles, lambda b: (b["p"], b["k"]),
                         lambda b, trig=trig: Poly.fn(trig, phase("grid_radians", "uv_wavelengths", b["p"], b["k"], -1)), what=f"{trig}(phi)")

    P_EXT = lambda *names: [S_(n) for n in names]
    # ---- direct vector transform
    f = p.func(f"{TU}:visibilities_jit")
    need_params(f, "image_1d", "grid_radians", "uv_wavelengths")
    S = K.summarize(f)
    out = S.returned_array_names()
    roles = {"p": P_EXT("image_1d.shape[0]", "grid_radians.shape[0]"), "k": P_EXT("uv_wavelengths.shape[0]")}

    def fwd_val(I, G, U):
        def v(b):
            ph = phase(G, U, b["p"], b["k"], -1)
            return I(b) * (Poly.fn("cos", ph) + J * Poly.fn("sin", ph))
        return v
    if len(out) == 1:
        check_accumulate(ctx, "C13.phase", S, out[0], roles, lambda b: (b["k"],),
                         fwd_val(lambda b: Poly.elem("image_1d", b["p"]), "grid_radians", "uv_wavelengths"), what="I_p exp(-2 pi i (x u + y v))")
    else:
        ctx.ob("C13.phase", f.key, None, message=f"expected one returned array, got {out}")

    # ---- preloaded vector transform
    f = p.func(f"{TU}:visibilities_via_preload_jit_from")
    need_params(f, "image_1d", "preloaded_reals", "preloaded_imags")
    S = K.summarize(f)
    out = S.returned_array_names()
    roles = {"p": P_EXT("image_1d.shape[0]", "preloaded_reals.shape[0]", "preloaded_imags.shape[0]"),
             "k": P_EXT("preloaded_reals.shape[1]", "preloaded_imags.shape[1]")}
    if len(out) == 1:
        check_accumulate(ctx, "C13.preload", S, out[0], roles, lambda b: (b["k"],),
                         lambda b: Poly.elem("image_1d", b["p"]) * (Poly.elem("preloaded_reals", b["p"], b["k"]) + J * Poly.elem("preloaded_imags", b["p"], b["k"])),
                         what="I_p (R[p,k] + i Im[p,k])")
    else:
        ctx.ob("C13.preload", f.key, None, message=f"expected one returned array, got {out}")

    # ---- matrix transforms
    f = p.func(f"{TU}:transformed_mapping_matrix_jit")
    need_params(f, "mapping_matrix", "grid_radians", "uv_wavelengths")
    S = K.summarize(f)
    out = S.returned_array_names()
    roles = {"p": P_EXT("mapping_matrix.shape[0]", "grid_radians.shape[0]"), "q": P_EXT("mapping_matrix.shape[1]"), "k": P_EXT("uv_wavelengths.shape[0]")}
    M = lambda b: Poly.elem("mapping_matrix", b["p"], b["q"])
    if len(out) == 1:
        check_accumulate(ctx, "C13.lin", S, out[0], roles, lambda b: (b["k"], b["q"]), fwd_val(M, "grid_radians", "uv_wavelengths"),
                         zero_test_operand=M, what="M[p,q] exp(-2 pi i (x u + y v))", allowed_guard=_empty_row_skip)
    else:
        ctx.ob("C13.lin", f.key, None, message=f"expected one returned array, got {out}")

    f = p.func(f"{TU}:transformed_mapping_matrix_via_preload_jit_from")
    need_params(f, "mapping_matrix", "preloaded_reals", "preloaded_imags")
    S = K.summarize(f)
    out = S.returned_array_names()
    roles = {"p": P_EXT("mapping_matrix.shape[0]", "preloaded_reals.shape[0]"), "q": P_EXT("mapping_matrix.shape[1]"),
             "k": P_EXT("preloaded_reals.shape[1]", "preloaded_imags.shape[1]")}
    if len(out) == 1:
        check_accumulate(ctx, "C13.lin", S, out[0], roles, lambda b: (b["k"], b["q"]),
                         lambda b: M(b) * (Poly.elem("preloaded_reals", b["p"], b["k"]) + J * Poly.elem("preloaded_imags", b["p"], b["k"])),
                         zero_test_operand=M, what="M[p,q] (R[p,k] + i Im[p,k])", allowed_guard=_empty_row_skip)
    else:
        ctx.ob("C13.lin", f.key, None, message=f"expected one returned array, got {out}")

    # ---- adjoint
    f = p.func(f"{TU}:image_via_jit_from")
    need_params(f, "n_pixels", "grid_radians", "uv_wavelengths", "visibilities")
    S = K.summarize(f)
    out = S.returned_array_names()
    if len(out) == 1:
        shp = getattr(S.env.get(out[0]), "shape", None)
        ext = [S_("grid_radians.shape[0]"), S_("n_pixels")]
        roles = {"p": ext, "k": P_EXT("uv_wavelengths.shape[0]", "visibilities.shape[0]")}

        def adj(b):
            ps = phase("grid_radians", "uv_wavelengths", b["p"], b["k"], +1)
            return Poly.elem("visibilities", b["k"], ZERO) * Poly.fn("cos", ps) - Poly.elem("visibilities", b["k"], Poly.const(1)) * Poly.fn("sin", ps)
        check_accumulate(ctx, "C13.adjoint", S, out[0], roles, lambda b: (b["p"],), adj, what="Re V cos(psi) - Im V sin(psi)")
        ctx.ob("C13.adjoint", f.key + ":size", shp is not None and len(shp) == 1 and shp[0] == S_("n_pixels"), where=f, node=f.node,
               construct=f"shape of {out[0]} = {shp}", message="adjoint image is not allocated with n_pixels entries")
    else:
        ctx.ob("C13.adjoint", f.key, None, message=f"expected one returned array, got {out}")

    # ---- interferometer normal equations
    f = p.func(f"{IU}:data_vector_via_transformed_mapping_matrix_from")
    need_params(f, "transformed_mapping_matrix", "visibilities", "noise_map")
    S = K.summarize(f)
    out = S.returned_array_names()
    roles = {"k": P_EXT("transformed_mapping_matrix.shape[0]", "visibilities.shape[0]"), "q": P_EXT("transformed_mapping_matrix.shape[1]")}

    def dv(b):
        k, q = b["k"], b["q"]
        re = Poly.elem("visibilities.real", k) * Poly.elem("transformed_mapping_matrix.real", k, q) / (Poly.elem("noise_map.real", k) ** 2)
        im = Poly.elem("visibilities.imag", k) * Poly.elem("transformed_mapping_matrix.imag", k, q) / (Poly.elem("noise_map.imag", k) ** 2)
        return re + im
    if len(out) == 1:
        check_accumulate(ctx, "C13.normal", S, out[0], roles, lambda b: (b["q"],), dv, what="Re d Re T / Re n^2 + Im d Im T / Im n^2")
    else:
        ctx.ob("C13.normal", f.key, None, message=f"expected one returned array, got {out}")

    f = p.func(f"{IU}:mapped_reconstructed_visibilities_from")
    need_params(f, "transformed_mapping_matrix", "reconstruction")
    S = K.summarize(f)
    out = S.returned_array_names()
    roles = {"k": P_EXT("transformed_mapping_matrix.shape[0]"), "q": P_EXT("reconstruction.shape[0]", "transformed_mapping_matrix.shape[1]")}
    if len(out) == 1:
        check_accumulate(ctx, "C13.normal", S, out[0], roles, lambda b: (b["k"],),
                         lambda b: Poly.elem("reconstruction", b["q"]) * (Poly.elem("transformed_mapping_matrix.real", b["k"], b["q"])
                                                                          + J * Poly.elem("transformed_mapping_matrix.imag", b["k"], b["q"])),
                         what="s_q (Re T + i Im T)")

    curvature_rule(ctx, p)
    wiring_rule(ctx, p)


def curvature_rule(ctx, p):
    """InversionInterferometerMapping.curvature_matrix = cm(Re T, Re n) + cm(Im T, Im n); data_vector feeds the operated mapping matrix, data and noise map."""
    c = p.cls(f"{IM}:InversionInterferometerMapping")
    f = c.methods.get("curvature_matrix")
    if f is None:
        raise AnchorMissing("InversionInterferometerMapping.curvature_matrix")
    calls = wire.calls_to(p, f, "autoarray.inversion.inversion.inversion_util:curvature_matrix_via_mapping_matrix_from")
    parts = []
    for cnode in calls:
        b = wire.kw(cnode, p.func("autoarray.inversion.inversion.inversion_util:curvature_matrix_via_mapping_matrix_from"))
        mm, nm = b.get("mapping_matrix"), b.get("noise_map")
        def part(e):
            e = wire.strip_np_array(wire.inline_locals(f, e)) if e is not None else None
            if isinstance(e, ast.Attribute) and e.attr in ("real", "imag"):
                return e.attr, norm_text(wire.strip_np_array(e.value))
            return None, norm_text(e) if e is not None else None
        pm, base_m = part(mm)
        pn, base_n = part(nm)
        parts.append((pm, pn, base_m, base_n, cnode))
    kinds = sorted((a, b) for a, b, _, _, _ in parts)
    ok = kinds == [("imag", "imag"), ("real", "real")]
    ctx.ob("C13.normal", f.key + ":pairing", ok, where=f, node=calls[0] if calls else f.node,
           construct="; ".join(f"mapping_matrix.{a} with noise_map.{b}" for a, b, _, _, _ in parts) or "no Gram product calls",
           message="curvature matrix must be built from exactly two Gram products pairing the real parts and the imaginary parts of operator and noise",
           detail=[f"{a}/{b}" for a, b in kinds])
    if ok:
        bm = {m for _, _, m, _, _ in parts}
        bn = {n for _, _, _, n, _ in parts}
        ctx.ob("C13.normal", f.key + ":operands", bm == {"self.operated_mapping_matrix"} and bn == {"self.noise_map"}, where=f, node=calls[0],
               construct=f"operators {sorted(bm)} noise {sorted(bn)}", message="both Gram products must use the inversion's own operated mapping matrix and noise map")
        # the two products are summed (np.add or +) and that sum is what the diagonal term is added to / returned
        # name-free: on every returning path the value contains the sum (np.add / +) of exactly the two Gram product calls (sa/paths.py)
        from .. import paths
        PSf = paths.returns(paths.path_summaries(f, project=p) or [])
        names = {}
        summed = bool(PSf)
        for q in PSf:
            found = False
            for n in ast.walk(q.value):
                ops = None
                if isinstance(n, ast.Call) and paths.ptext(n.func) in ("np.add", "numpy.add") and len(n.args) == 2 and not n.keywords:
                    ops = n.args
                elif isinstance(n, ast.BinOp) and isinstance(n.op, ast.Add):
                    ops = [n.left, n.right]
                if ops and all(isinstance(o, ast.Call) and paths.ptext(o.func).endswith("curvature_matrix_via_mapping_matrix_from") for o in ops) and paths.ptext(ops[0]) != paths.ptext(ops[1]):
                    found = True
            summed = summed and found
        names = {"real": 1, "imag": 1} if summed else {}
        ctx.ob("C13.normal", f.key + ":sum", summed and len(names) == 2, where=f, node=f.node, construct=f"products bound to {sorted(names)}",
               message="the real and imaginary Gram products must be added (np.add / +)")
    # data vector wiring
    f = c.methods.get("data_vector")
    if f is None:
        raise AnchorMissing("InversionInterferometerMapping.data_vector")
    callee = p.func(f"{IU}:data_vector_via_transformed_mapping_matrix_from")
    calls = wire.calls_to(p, f, callee.key)
    ok = len(calls) == 1
    got = {}
    if ok:
        got = {k: norm_text(wire.strip_np_array(v)) for k, v in wire.kw(calls[0], callee).items()}
        ok = got == {"transformed_mapping_matrix": "self.operated_mapping_matrix", "visibilities": "self.data", "noise_map": "self.noise_map"}
    ctx.ob("C13.normal", f.key + ":wiring", ok, where=f, node=calls[0] if calls else f.node, construct=str(got),
           message="data_vector must hand the operated mapping matrix, the data and the noise map to the normal-equation kernel")


def wiring_rule(ctx, p):
    c = p.cls(f"{TR}:TransformerDFT")
    init = c.methods.get("__init__")
    if init is None:
        raise AnchorMissing("TransformerDFT.__init__")
    # preload tables built from the same (grid, uv)
    tabs = {}
    for nm in ("preload_real_transforms", "preload_imag_transforms"):
        callee = p.func(f"{TU}:{nm}")
        cs = wire.calls_to(p, init, callee.key)
        if len(cs) != 1:
            ctx.ob("C13.wiring", f"{init.key}:{nm}", None, message=f"expected exactly one call of {nm} in TransformerDFT.__init__, found {len(cs)}")
            continue
        tabs[nm] = wire.kwr(init, cs[0], callee)   # name-free: local temporaries inlined, np.array(...) wrappers stripped
        # assigned to self.<nm>
        tgt = None
        for n in init.body_nodes():
            if isinstance(n, ast.Assign) and n.value is cs[0] and isinstance(n.targets[0], ast.Attribute):
                tgt = n.targets[0].attr
        tabs[nm]["->"] = tgt
    if len(tabs) == 2:
        a, b = tabs["preload_real_transforms"], tabs["preload_imag_transforms"]
        ok = {k: v for k, v in a.items() if k != "->"} == {k: v for k, v in b.items() if k != "->"} == {"grid_radians": "self.grid", "uv_wavelengths": "self.uv_wavelengths"}
        ctx.ob("C13.wiring", f"{init.key}:tables", ok, where=init, node=init.node, construct=f"real {a} imag {b}",
               message="cos and sin preload tables must be built from the same self.grid and self.uv_wavelengths")
        ok2 = a["->"] == "preload_real_transforms" and b["->"] == "preload_imag_transforms"
        ctx.ob("C13.wiring", f"{init.key}:slots", ok2, where=init, node=init.node, construct=f"real -> self.{a['->']}, imag -> self.{b['->']}",
               message="cos table must be stored as self.preload_real_transforms and sin table as self.preload_imag_transforms")
    # grid is the unmasked grid of the real-space mask in radians
    grid_src = None
    for n in init.body_nodes():
        if isinstance(n, ast.Assign) and isinstance(n.targets[0], ast.Attribute) and n.targets[0].attr == "grid" and norm_text(n.targets[0].value) == "self":
            grid_src = norm_text(n.value)
    ctx.ob("C13.wiring", f"{init.key}:grid", grid_src == "self.real_space_mask.derive_grid.unmasked.in_radians", where=init, node=init.node,
           construct=f"self.grid = {grid_src}", message="the transformer grid must be the real-space mask's unmasked pixel-centre grid converted to radians")

    # the baselines the tables were computed from are a private copy: the tables cannot drift from the stored baselines if the caller edits its array afterwards
    from . import C11
    from ..effect import F, effective_fields
    E = C11.get_effects(p)
    tags = effective_fields(E, init.cls).get("uv_wavelengths", set())
    alias = sorted(t[1] for t in tags if t[0] == "P")
    ctx.ob("C13.wiring", f"{init.key}:own baselines", bool(tags) and not alias, where=init, node=init.node, construct=f"self.uv_wavelengths may alias constructor argument(s) {alias}" if alias else "self.uv_wavelengths is a fresh array",
           message="the transformer must keep its own copy of the baselines (astype / np.array): with an alias, a later in-place edit of the caller's array changes the baselines the direct transform and the adjoint use "
                   "but not the preloaded tables, and the preloaded and direct variants disagree")

    # branch agreement
    for meth, pre, direct, operand_kw in (("visibilities_from", "visibilities_via_preload_jit_from", "visibilities_jit", "image_1d"),
                                          ("transform_mapping_matrix", "transformed_mapping_matrix_via_preload_jit_from", "transformed_mapping_matrix_jit", "mapping_matrix")):
        f = c.methods.get(meth)
        if f is None:
            raise AnchorMissing(f"TransformerDFT.{meth}")
        cp, cd = p.func(f"{TU}:{pre}"), p.func(f"{TU}:{direct}")
        a, b = wire.calls_to(p, f, cp.key), wire.calls_to(p, f, cd.key)
        if len(a) != 1 or len(b) != 1:
            ctx.ob("C13.wiring", f"{f.key}:branches", None, message=f"expected one preload and one direct call, found {len(a)}/{len(b)}")
            continue
        ka = wire.kwr(f, a[0], cp)
        kb = wire.kwr(f, b[0], cd)
        ok = ka.get(operand_kw) == kb.get(operand_kw) and ka.get(operand_kw) is not None
        ctx.ob("C13.wiring", f"{f.key}:operand", ok, where=f, node=a[0], construct=f"preload {operand_kw}={ka.get(operand_kw)} ; direct {operand_kw}={kb.get(operand_kw)}",
               message="preload and direct branches must receive the same form of the operand")
        if meth == "visibilities_from":
            ctx.ob("C13.wiring", f"{f.key}:slim", ka.get(operand_kw, "").endswith(".slim"), where=f, node=a[0], construct=f"{operand_kw}={ka.get(operand_kw)}",
                   message="the image must be handed over in slim form (unmasked pixels in the order of the grid)")
        ok = (ka.get("preloaded_reals"), ka.get("preloaded_imags")) == ("self.preload_real_transforms", "self.preload_imag_transforms")
        ctx.ob("C13.wiring", f"{f.key}:tables", ok, where=f, node=a[0], construct=f"reals={ka.get('preloaded_reals')} imags={ka.get('preloaded_imags')}",
               message="preload branch must pass the cos table as preloaded_reals and the sin table as preloaded_imags")
        ok = (kb.get("grid_radians"), kb.get("uv_wavelengths")) == ("self.grid", "self.uv_wavelengths")
        ctx.ob("C13.wiring", f"{f.key}:direct-args", ok, where=f, node=b[0], construct=f"grid={kb.get('grid_radians')} uv={kb.get('uv_wavelengths')}",
               message="direct branch must use the grid and baselines the preload tables were built from")
        # selection only by preload_transform
        pa, pb = wire.path_conds(f, a[0]), wire.path_conds(f, b[0])
        sel = pa == [("self.preload_transform", True)] and pb == [("self.preload_transform", False)]
        ctx.ob("C13.wiring", f"{f.key}:select", sel, where=f, node=a[0], construct=f"preload under {pa}; direct under {pb}",
               message="the two variants must be the two arms of one test of self.preload_transform")
    # adjoint wiring
    f = c.methods.get("image_from")
    if f is None:
        raise AnchorMissing("TransformerDFT.image_from")
    callee = p.func(f"{TU}:image_via_jit_from")
    cs = wire.calls_to(p, f, callee.key)
    got = {k: norm_text(wire.strip_np_array(v)) for k, v in wire.kw(cs[0], callee).items()} if len(cs) == 1 else {}
    ok = got == {"n_pixels": "self.grid.shape[0]", "grid_radians": "self.grid", "uv_wavelengths": "self.uv_wavelengths", "visibilities": "visibilities.in_array"}
    ctx.ob("C13.wiring", f"{f.key}:adjoint-args", ok, where=f, node=cs[0] if cs else f.node, construct=str(got),
           message="adjoint must use the transformer's own grid and baselines and the (real, imag) column form of the visibilities")


_M = "autoarray/operators/transformer_util.py"
CONTROLS = [
    Control("transformer shares the caller's baseline array (seed C13/4)", "autoarray/operators/transformer.py", in_func("TransformerDFT.__init__", 'self.uv_wavelengths = uv_wavelengths.astype("float")', 'self.uv_wavelengths = np.asarray(uv_wavelengths, dtype="float")'), "C13.wiring"),
    Control("twin: baselines copied with np.array", "autoarray/operators/transformer.py", in_func("TransformerDFT.__init__", 'self.uv_wavelengths = uv_wavelengths.astype("float")', 'self.uv_wavelengths = np.array(uv_wavelengths, dtype="float")'), None, twin=True),
    Control("phase sign flipped in visibilities_jit", _M, in_func("visibilities_jit", "-2.0", "2.0", count=2, occurrence=0), "C13.phase"),
    Control("u,v columns swapped in preload_real_transforms", _M, in_func("preload_real_transforms", "uv_wavelengths[vis_1d_index, 0]", "uv_wavelengths[vis_1d_index, 1]", count=1), "C13.phase"),
    Control("sparsity guard back to > 0", _M, in_func("transformed_mapping_matrix_jit", "if value != 0:", "if value > 0:"), "C13.lin"),
    Control("adjoint adds the sine term", _M, in_func("image_via_jit_from", "image_1d[image_1d_index] -=", "image_1d[image_1d_index] +="), "C13.adjoint"),
    Control("preload table indexed [k,p]", _M, in_func("visibilities_via_preload_jit_from", "preloaded_imags[image_1d_index, vis_1d_index]", "preloaded_imags[vis_1d_index, image_1d_index]"), "C13.preload"),
    Control("preload branch gets un-slimmed image", "autoarray/operators/transformer.py", in_func("TransformerDFT.visibilities_from", "image_1d=np.array(image.slim),\n                preloaded_reals", "image_1d=np.array(image),\n                preloaded_reals"), "C13.wiring"),
    Control("imag Gram product uses real noise", "autoarray/inversion/inversion/interferometer/mapping.py", in_func("InversionInterferometerMapping.curvature_matrix", "noise_map=self.noise_map.imag", "noise_map=self.noise_map.real"), "C13.normal"),
    Control("twin: temporaries renamed / reassociated", _M, in_func("visibilities_jit", "visibilities[vis_1d_index] += vis_real + 1j * vis_imag", "tmp = 1j * vis_imag\n            visibilities[vis_1d_index] += tmp + vis_real"), None, twin=True),
]
