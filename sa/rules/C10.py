"""C10 - blurring, edge and border pixel sets match their definitions for every mask (DESIGN.md section 4, C10)."""
from __future__ import annotations

import ast

from ..keval import KEval, Ref, Cond, Const, Top
from ..poly import Poly, ZERO, ONE
from ..forms import value_poly, real_guards, short, acc_name_of, is_full_range, norm_cond, CMP, AND, OR
from ..trav import check_slim_counter, counter_increments, counter_init_zero
from .. import wire, paths
from ..model import norm_text, AnchorMissing
from ..controls import Control
from ..mutate import in_func

S_ = Poly.sym
E_ = Poly.elem
M2 = "autoarray.mask.mask_2d_util"
H, W = S_("H"), S_("W")
TWO = Poly.const(2)


def need(f, *names):
    for n in names:
        if n not in f.all_params:
            raise AnchorMissing(f"{f.key}: parameter {n}")


def bounds_set(conds, yy, xx, Hs, Ws):
    """which of the four in-array bounds of (yy, xx) are present among the normalised comparisons"""
    have = set()
    for c in conds:
        if c.kind != "cmp":
            continue
        n = norm_cond(c)
        for tag, forms in (("y>=0", [norm_cond(CMP(ZERO, "<=", yy))]), ("x>=0", [norm_cond(CMP(ZERO, "<=", xx))]),
                           ("y<H", [norm_cond(CMP(yy, "<", h)) for h in Hs] + [norm_cond(CMP(yy, "<=", h - ONE)) for h in Hs]),
                           ("x<W", [norm_cond(CMP(xx, "<", w)) for w in Ws] + [norm_cond(CMP(xx, "<=", w - ONE)) for w in Ws])):
            if n in forms:
                have.add(tag)
    return have


def blurring_rule(ctx, p, K):
    rule = "C10.blurring"
    f = p.func(f"{M2}:blurring_mask_2d_from")
    need(f, "mask_2d", "kernel_shape_native")
    M = Ref("M", shape=(H, W))
    K0, K1 = S_("K0"), S_("K1")
    S = K.summarize(f, dict(mask_2d=M, kernel_shape_native=(K0, K1)))
    out = S.returned_array_names()
    if len(out) != 1:
        ctx.ob(rule, f.key, None, message=f"expected one returned array, got {out}")
        return
    sts = S.stores_to(out[0])
    if len(sts) != 1 or len(sts[0].loops) != 4:
        ctx.ob(rule, f.key, False, where=f, node=f.node, construct=f"{len(sts)} stores", message="expected one store inside the (y, x, y1, x1) footprint nest")
        return
    st = sts[0]
    ly, lx, l1y, l1x = st.loops
    y, x, y1, x1 = (S_(l.var) for l in st.loops)
    ctx.ob(rule, f.key + ":pixels", is_full_range(ly, [H]) and is_full_range(lx, [W]), where=f, node=st.node, construct=f"{ly!r}; {lx!r}", message="every pixel of the mask must be visited")
    want0 = (Poly.fn("fdiv", ONE - K0, TWO), Poly.fn("fdiv", K0 + ONE, TWO))
    want1 = (Poly.fn("fdiv", ONE - K1, TWO), Poly.fn("fdiv", K1 + ONE, TWO))
    ok = (l1y.lo, l1y.hi) == want0 and (l1x.lo, l1x.hi) == want1 and l1y.step == ONE and l1x.step == ONE
    yy, xx = y + y1, x + x1
    if not ok and isinstance(l1y.lo, Poly) and isinstance(l1x.lo, Poly) and (l1y.lo - y, l1y.hi - y) == want0 and (l1x.lo - x, l1x.hi - x) == want1 and l1y.step == ONE and l1x.step == ONE:
        # the same footprint walked in absolute coordinates: for yb in range(y + lo, y + hi) - the loop variable is the footprint pixel itself
        ok = True
        yy, xx = y1, x1
    ctx.ob(rule, f.key + ":footprint", ok, where=f, node=st.node, construct=f"{l1y!r}; {l1x!r}",
           message="the footprint offsets must be range((-K+1)//2, (K+1)//2) with the y offsets from kernel axis 0 and the x offsets from kernel axis 1")
    ctx.ob(rule, f.key + ":target", st.idx == (yy, xx) and isinstance(st.value, Const) and st.value.v is False, where=f, node=st.node, construct=repr(st)[:140], message="the pixel at (y + y1, x + x1) must be unmasked (set False)")
    gs = real_guards(st.guards)
    # the in-frame test may guard the store directly, or be the precondition whose failure raises (`if not in_frame: raise`): either way the store runs only in-frame
    gs_all = [c for g in st.guards for c in g.flat_and()]
    b = bounds_set(gs_all, yy, xx, [H], [W])
    ctx.ob(rule, f.key + ":in-frame", b == {"y>=0", "x>=0", "y<H", "x<W"}, where=f, node=st.node, construct="; ".join(map(repr, gs))[:300],
           message=f"the footprint pixel must be tested against the array bounds of its own axis on both sides (found {sorted(b)})")
    src = any(c.kind == "not" and c.args[0].kind == "truth" and c.args[0].args[0] == E_("M", y, x) for c in gs)
    tgt = any(c.kind == "truth" and c.args[0] == E_("M", yy, xx) for c in gs)
    ctx.ob(rule, f.key + ":source-unmasked", src, where=f, node=st.node, construct="; ".join(map(repr, gs))[:200], message="footprints must be laid only around unmasked pixels")
    ctx.ob(rule, f.key + ":target-masked", tgt, where=f, node=st.node, construct="; ".join(map(repr, gs))[:200], message="only MASKED pixels inside the footprint may be unmasked in the blurring mask")
    extra = [c for c in gs if c.kind == "cmp" and not bounds_set([c], yy, xx, [H], [W])] + [c for c in gs if c.kind not in ("cmp",) and not (c.kind == "not" and c.args[0].kind == "truth" and c.args[0].args[0] == E_("M", y, x)) and not (c.kind == "truth" and c.args[0] == E_("M", yy, xx))]
    ctx.ob(rule, f.key + ":no-extra", not extra, where=f, node=st.node, construct=repr(extra[0]) if extra else "", message="blurring pixels are dropped under an extra condition")
    # out-of-frame footprint raises instead of producing a result
    r = [(nm, g, n) for nm, g, n in S.raises if nm.split(".")[-1] == "MaskException"]
    ok = False
    det = ""
    from ..forms import cond_equiv
    in_frame = AND(CMP(ZERO, "<=", yy), CMP(yy, "<", H), CMP(ZERO, "<=", xx), CMP(xx, "<", W))
    for nm, g, n in r:
        gg = real_guards(g)
        is_src = lambda c: c.kind == "not" and c.args[0].kind == "truth" and c.args[0].args[0] == E_("M", y, x)
        rest = [c for c in gg if not is_src(c)]
        det = "; ".join(map(repr, gg))[:300]
        # whichever way the out-of-frame test is written (negated conjunction, disjunction of the four violations, i > N - 1 for i >= N): the exact negation, over the integers
        if rest and any(is_src(c) for c in gg) and cond_equiv(rest[0] if len(rest) == 1 else AND(*rest), Cond("not", in_frame), limit=12, integer=True):
            ok = True
    ctx.ob(rule, f.key + ":raises", ok, where=f, node=r[0][2] if r else f.node, construct=det, message="a footprint pixel outside the array (the exact negation of the in-frame test) must raise exc.MaskException")
    ref = S.env.get(out[0])
    init, shp = getattr(ref, "init", None), getattr(ref, "shape", None)
    ctx.ob(rule, f.key + ":init", init is not None and init[0] == "full" and isinstance(init[1], Const) and init[1].v is True, where=f, node=f.node, construct=f"init {init}", message="the blurring mask must start fully masked")
    # DeriveMask2D.blurring_from hands over its own mask and the kernel shape, and returns on the parent's geometry
    g = p.func("autoarray.mask.derive.mask_2d:DeriveMask2D.blurring_from")
    cs = wire.calls_to(p, g, f.key)
    got = {k: norm_text(wire.strip_np_array(v)) for k, v in wire.kw(cs[0], f).items()} if len(cs) == 1 else {}
    rets = wire.returns_of(g)
    rkv = wire.kw(rets[0].value) if rets and isinstance(rets[0].value, ast.Call) else {}
    rk = {k: norm_text(v) for k, v in rkv.items()}
    ok = got == {"mask_2d": "self.mask", "kernel_shape_native": "kernel_shape_native"} and len(cs) == 1 and set(rk) == {"mask", "pixel_scales", "origin"} and wire.is_value_of(g, rkv["mask"], cs[0]) \
        and (rk["pixel_scales"], rk["origin"]) == ("self.mask.pixel_scales", "self.mask.origin")
    ctx.ob(rule, g.key, ok, where=g, node=cs[0] if cs else g.node, construct=f"{got} -> {rk}", message="blurring_from must dilate self.mask with the given kernel shape and return a mask with the parent's pixel scales and origin")


def edge_test_rule(ctx, p, K):
    """check_if_edge_pixel: True iff one of the eight in-array neighbours is masked"""
    rule = "C10.edge-test"
    f = p.func(f"{M2}:check_if_edge_pixel")
    need(f, "mask_2d", "y", "x")
    M = Ref("M", shape=(H, W))
    S = K.summarize(f, dict(mask_2d=M, y=S_("y"), x=S_("x")))
    y, x = S_("y"), S_("x")
    trues = [(v, g, n) for v, g, n in S.returns if isinstance(v, Const) and v.v is True]
    falses = [(v, g, n) for v, g, n in S.returns if isinstance(v, Const) and v.v is False]
    others = [(v, g, n) for v, g, n in S.returns if not isinstance(v, Const)]
    if others:
        v = others[0][0]
        # vectorised form: np.any(mask[lo_y:hi_y, lo_x:hi_x])
        ok = False
        det = short(v)
        if isinstance(v, Poly):
            ats = list(v.atoms())
            if len(ats) == 1 and ats[0][0] == "f" and ats[0][1] == "any" and len(ats[0][2]) == 1:
                inner = list(ats[0][2][0].atoms())
                if len(inner) == 1 and inner[0][0] == "i" and inner[0][1] == "M" and len(inner[0][2]) == 2:
                    sy, sx = inner[0][2]

                    def sl(s_, c):
                        a = list(s_.atoms())
                        if len(a) == 1 and a[0][0] == "f" and a[0][1] == "slice":
                            lo, hi, st_ = a[0][2]
                            return lo == Poly.fn("max", c - ONE, ZERO) and hi in (c + TWO, Poly.fn("min", c + TWO, H), Poly.fn("min", c + TWO, W))
                        return False
                    ok = sl(sy, y) and sl(sx, x)
        ctx.ob(rule, f.key, ok, where=f, node=others[0][2], construct=det,
               message="a sliced neighbourhood test must clamp the lower bound at 0 (a negative slice start wraps around / yields an empty window for pixels in the first row or column)")
        return
    ok = len(falses) >= 1 and len(trues) >= 1
    offsets = set()
    det = []
    for v, g, n in trues:
        gg = real_guards(g)
        loops = [l for l in S.loops if l.node.lineno <= n.lineno <= l.node.end_lineno]
        # loop form
        if len(loops) == 2 and all(l.kind == "range" and l.step == ONE for l in loops) \
                and (loops[0].lo, loops[0].hi, loops[1].lo, loops[1].hi) == (Poly.fn("max", y - ONE, ZERO), Poly.fn("min", y + TWO, H), Poly.fn("max", x - ONE, ZERO), Poly.fn("min", x + TWO, W)):
            # the 3 x 3 window clipped to the array by its loop bounds: every in-array neighbour is visited, nothing outside is read
            yn, xn = S_(loops[0].var), S_(loops[1].var)
            t = len(gg) == 1 and gg[0].kind == "truth" and gg[0].args[0] == E_("M", yn, xn)
            det.append(f"clipped window loops; masked-test {t}")
            if t:
                offsets |= {(a, b_) for a in (-1, 0, 1) for b_ in (-1, 0, 1)}
        elif len(loops) == 2 and all(l.kind == "range" and l.step == ONE for l in loops):
            dy, dx = S_(loops[0].var), S_(loops[1].var)
            yy, xx = y + dy, x + dx
            rng = [(l.lo.const_value(), l.hi.const_value()) for l in loops]
            b = bounds_set(gg, yy, xx, [H], [W])
            t = any(c.kind == "truth" and c.args[0] == E_("M", yy, xx) for c in gg)
            extra = [c for c in gg if not (c.kind == "truth" and c.args[0] == E_("M", yy, xx)) and not bounds_set([c], yy, xx, [H], [W])]
            det.append(f"offsets range{rng}; bounds {sorted(b)}; masked-test {t}; extra {[repr(c) for c in extra]}")
            if rng == [(-1, 2), (-1, 2)] and b == {"y>=0", "x>=0", "y<H", "x<W"} and t and not extra:
                offsets |= {(a, b_) for a in (-1, 0, 1) for b_ in (-1, 0, 1)}
        else:
            # explicit listing: a disjunction of mask reads at constant offsets, each of which must be bounds-guarded
            for c in gg:
                parts = c.args if c.kind == "or" else (c,)
                for q in parts:
                    if q.kind == "truth" and isinstance(q.args[0], Poly):
                        a = list(q.args[0].atoms())
                        if len(a) == 1 and a[0][0] == "i" and a[0][1] == "M":
                            oy_, ox_ = (a[0][2][0] - y).const_value(), (a[0][2][1] - x).const_value()
                            det.append(f"unguarded read at offset ({oy_}, {ox_})")
            ok = False
    need8 = {(a, b_) for a in (-1, 0, 1) for b_ in (-1, 0, 1)} - {(0, 0)}
    ctx.ob(rule, f.key, ok and need8 <= offsets, where=f, node=trues[0][2] if trues else f.node, construct="; ".join(det)[:300],
           message="the edge test must return True exactly when one of the eight neighbours {-1,0,1}^2 that lies inside the array is masked (each neighbour read guarded by the bounds of its own axis), else False")


def edge_lists_rule(ctx, p, K):
    rule = "C10.edge-index"
    M = Ref("M", shape=(H, W))
    f = p.func(f"{M2}:edge_1d_indexes_from")
    need(f, "mask_2d")
    S = K.summarize(f, dict(mask_2d=M))
    out = S.returned_array_names()
    if len(out) != 1:
        ctx.ob(rule, f.key, None, message=f"expected one returned array, got {out}")
        return
    sts = S.stores_to(out[0])
    if len(sts) != 1 or len(sts[0].loops) != 2:
        ctx.ob(rule, f.key, False, where=f, node=f.node, construct=f"{len(sts)} stores", message="expected one store in the (y, x) nest")
        return
    st = sts[0]
    y, x = S_(st.loops[0].var), S_(st.loops[1].var)
    ecnt = acc_name_of(st.idx[0])
    rcnt = acc_name_of(value_poly(st.value))
    ok = ecnt is not None and rcnt is not None and st.idx == (S_(ecnt + "~"),) and value_poly(st.value) == S_(rcnt + "~")
    ctx.ob(rule, f.key + ":store", ok, where=f, node=st.node, construct=repr(st)[:160], message="edge list entry must record the running slim index of the pixel")
    if not ok:
        return
    # the slim index counts EVERY unmasked pixel of the whole mask (a restricted range would skip the outer ring)
    check_slim_counter(ctx, rule, S, rcnt, ["M"], shape=(H, W), what="slim")
    # the edge counter advances under: unmasked AND edge test at (y, x)
    edge_atom = Poly.fn("check_if_edge_pixel", S_("M"), y, x)

    def edge_guard(c, a, b):
        return c.kind == "truth" and c.args[0] == Poly.fn("check_if_edge_pixel", S_("M"), a, b)
    gs = real_guards(st.guards)
    ok = len(gs) == 2 and any(edge_guard(c, y, x) for c in gs) and any(c.kind == "not" and c.args[0].kind == "truth" and c.args[0].args[0] == E_("M", y, x) for c in gs)
    ctx.ob(rule, f.key + ":edge-guard", ok, where=f, node=st.node, construct="; ".join(map(repr, gs))[:240], message="an entry must be recorded exactly for unmasked pixels that pass the 8-neighbour edge test at their own position")
    incs = counter_increments(S, ecnt)
    ok = len(incs) == 1 and incs[0][0] == ONE and {c.key() for c in real_guards(incs[0][2])} == {c.key() for c in gs} and counter_init_zero(f, ecnt, st.loops[0].node.lineno)
    ctx.ob(rule, f.key + ":edge-counter", ok, where=f, node=st.node, construct=str([(op, repr(v)) for v, op, *_ in incs]), message="the edge-list slot must advance by 1 once per recorded entry, from 0")
    # size: the same predicate counted over the same full range
    shp = getattr(S.env.get(out[0]), "shape", None)
    ok = shp is not None and len(shp) == 1 and shp[0] == Poly.fn("total_edge_pixels_from", S_("M"))
    ctx.ob(rule, f.key + ":size", ok, where=f, node=f.node, construct=f"shape {shp}", message="the edge list must be sized by total_edge_pixels_from of the same mask")
    g = p.func(f"{M2}:total_edge_pixels_from")
    G = K.summarize(g, dict(mask_2d=M))
    tc = None
    for v, _, _ in G.returns:
        tc = acc_name_of(v) if isinstance(v, Poly) else None
    ok = tc is not None and check_slim_counter(ctx, rule, G, tc, ["M"], shape=(H, W), guard_ok=edge_guard, what="edge-total")
    if ok:
        incs = counter_increments(G, tc)
        gg = real_guards(incs[0][2])
        a, b = S_(incs[0][3][0].var), S_(incs[0][3][1].var)
        ok = len(gg) == 2 and any(edge_guard(c, a, b) for c in gg)
        ctx.ob(rule, g.key + ":predicate", ok, where=g, node=g.node, construct="; ".join(map(repr, gg))[:200], message="the edge total must count unmasked pixels passing the same edge test")


def border_rule(ctx, p, K):
    rule = "C10.border"
    f = p.func(f"{M2}:check_if_border_pixel")
    need(f, "mask_2d", "edge_pixel_slim", "native_to_slim")
    M = Ref("M", shape=(H, W))
    S = K.summarize(f, dict(mask_2d=M, edge_pixel_slim=S_("e"), native_to_slim=Ref("N")))
    e = K.to_int(S_("e"))
    y, x = K.to_int(E_("N", e, ZERO)), K.to_int(E_("N", e, ONE))
    sl = lambda lo, hi: Poly.fn("slice", lo, hi, S_("None"))
    want = OR(CMP(Poly.fn("sum", E_("M", sl(ZERO, y), x)), "==", y),
              CMP(Poly.fn("sum", E_("M", y, sl(x, W))), "==", W - x - ONE),
              CMP(Poly.fn("sum", E_("M", sl(y, H), x)), "==", H - y - ONE),
              CMP(Poly.fn("sum", E_("M", y, sl(ZERO, x))), "==", x))
    trues = [(v, g, n) for v, g, n in S.returns if isinstance(v, Const) and v.v is True]
    falses = [(v, g, n) for v, g, n in S.returns if isinstance(v, Const) and v.v is False]
    # the function answers True exactly on the paths that end in `return True`: the disjunction of their path conditions must be (propositionally) the four-direction test,
    # however the four tests are sequenced (one `or`, a chain of guard clauses, a final `return bool(test)`)
    from ..forms import cond_equiv
    ok = len(trues) >= 1 and len(falses) >= 1 and len(trues) + len(falses) == len(S.returns)
    det = ""
    if ok:
        arms = []
        for v_, g_, n_ in trues:
            gg = real_guards(g_)
            arms.append(gg[0] if len(gg) == 1 else AND(*gg))
        got = arms[0] if len(arms) == 1 else OR(*arms)
        det = str(norm_cond(got))[:400]
        ok = cond_equiv(got, want, limit=12)
    ctx.ob(rule, f.key, ok, where=f, node=f.node, construct=det,
           message="border test must be: all pixels strictly above (count y), to the right (W-x-1), below (H-y-1) or to the left (x) of the pixel, along its own column / row, are masked - in at least one direction")
    # border list: edge pixels passing the border test, in edge (slim) order
    g = p.func(f"{M2}:border_slim_indexes_from")
    G = K.summarize(g, dict(mask_2d=M))
    out = G.returned_array_names()
    ok = False
    det = ""
    if len(out) == 1:
        sts = G.stores_to(out[0])
        if len(sts) == 1 and len(sts[0].loops) == 1:
            st = sts[0]
            i = S_(st.loops[0].var)
            import re
            val = st.value
            gs = real_guards(st.guards)
            c = acc_name_of(st.idx[0])
            incs = counter_increments(G, c) if c else []
            det = f"{repr(st)[:200]}"
            # the edge list and the index list are the results of the two routines applied to the SAME mask
            same_mask = {}
            for ck, ca, cg, cn in G.calls:
                for nm in ("edge_1d_indexes_from", "native_index_for_slim_index_2d_from", "total_border_pixels_from"):
                    if ck.endswith(":" + nm):
                        same_mask[nm] = ca
            okm = all(nm in same_mask and isinstance(same_mask[nm].get("mask_2d"), Ref) and same_mask[nm]["mask_2d"].name == "M" for nm in ("edge_1d_indexes_from", "native_index_for_slim_index_2d_from", "total_border_pixels_from"))
            lp0 = st.loops[0]
            direct = lp0.kind == "iter" and isinstance(getattr(lp0, "seq", None), Ref)   # `for edge_pixel in edge_pixels`: the element itself is the loop variable
            if direct:
                i = S_(lp0.var + "@")
            okv = isinstance(val, Ref) and re.match(r"^edge_1d_indexes_from#\d+\.\w+$", val.name) is not None and val.idx == (i,) and (not direct or lp0.seq.name == val.name)
            okg = False
            if len(gs) == 1 and gs[0].kind == "truth" and isinstance(gs[0].args[0], Poly):
                a = list(gs[0].args[0].atoms())
                if len(a) == 1 and a[0][0] == "f" and a[0][1] == "check_if_border_pixel" and len(a[0][2]) == 3:
                    m_, e_, n_ = a[0][2]
                    okg = m_ == S_("M") and okv and e_ == val.poly() and re.match(r"^native_index_for_slim_index_2d_from#\d+\.\w+$", repr(n_)) is not None
            tb = same_mask.get("total_border_pixels_from", {})
            okt = isinstance(tb.get("edge_pixels"), Ref) and okv and tb["edge_pixels"].name == val.name and isinstance(tb.get("native_to_slim"), Ref) and tb["native_to_slim"].name.startswith("native_index_for_slim_index_2d_from#")
            ok = okm and okv and okg and okt and c is not None and st.idx == (S_(c + "~"),) and len(incs) == 1 and incs[0][0] == ONE \
                and {k.key() for k in real_guards(incs[0][2])} == {k.key() for k in gs} and (direct or (st.loops[0].lo == ZERO and st.loops[0].step == ONE \
                and (st.loops[0].hi == Poly.fn("total_edge_pixels_from", S_("M")) or (okv and st.loops[0].hi == S_(val.name + ".shape[0]"))))) and counter_init_zero(g, c, st.loops[0].node.lineno)
            shp = getattr(G.env.get(out[0]), "shape", None)
            ok = ok and shp is not None and isinstance(shp[0], Poly) and "total_border_pixels_from" in repr(shp[0])
    ctx.ob(rule, g.key, ok, where=g, node=g.node, construct=det,
           message="border list = the edge pixels (edge list of the SAME mask, in order) that pass the border test against the index list of the SAME mask, sized by the matching total")
    t = p.func(f"{M2}:total_border_pixels_from")
    T = K.summarize(t, dict(mask_2d=M, edge_pixels=Ref("E"), native_to_slim=Ref("N")))
    tc = None
    for v, _, _ in T.returns:
        tc = acc_name_of(v) if isinstance(v, Poly) else None
    incs = counter_increments(T, tc) if tc else []
    ok = len(incs) == 1 and incs[0][0] == ONE and len(incs[0][3]) == 1 and incs[0][3][0].lo == ZERO and incs[0][3][0].hi == S_("E.shape[0]")
    if ok:
        i = S_(incs[0][3][0].var)
        gg = real_guards(incs[0][2])
        ok = len(gg) == 1 and norm_cond(gg[0]) == norm_cond(Cond("truth", Poly.fn("check_if_border_pixel", S_("M"), E_("E", i), S_("N"))))
    ctx.ob(rule, t.key, ok, where=t, node=t.node, construct=str([(repr(v), [repr(c) for c in real_guards(g_)]) for v, op, g_, l, n in incs])[:240], message="the border total must count the edge pixels passing the same border test")


def views_rule(ctx, p):
    rule = "C10.views"
    di = p.cls("autoarray.mask.derive.indexes_2d:DeriveIndexes2D")
    want = {"edge_slim": ("edge_1d_indexes_from", None), "border_slim": ("border_slim_indexes_from", None)}
    for name, (util, _) in want.items():
        m = di.lookup(name)
        if m is None:
            raise AnchorMissing(f"DeriveIndexes2D.{name}")
        callee = p.func(f"{M2}:{util}")
        cs = wire.calls_to(p, m, callee.key)
        ok = len(cs) == 1 and {k: norm_text(wire.strip_np_array(v)) for k, v in wire.kw(cs[0], callee).items()} == {"mask_2d": "self.mask"}
        ctx.ob(rule, f"{di.key}.{name}", ok, where=m, node=cs[0] if cs else m.node, construct=norm_text(cs[0])[:100] if cs else "", message=f"{name} must be {util}(self.mask)")
    for name, src in (("edge_native", "edge_slim"), ("border_native", "border_slim")):
        m = di.lookup(name)
        rets = wire.returns_of(m)
        e = rets[0].value if rets else None
        while isinstance(e, ast.Call) and isinstance(e.func, ast.Attribute) and e.func.attr == "astype":
            e = e.func.value
        ok = isinstance(e, ast.Subscript) and norm_text(e.value) == "self.native_for_slim" and norm_text(e.slice) == f"self.{src}"
        ctx.ob(rule, f"{di.key}.{name}", ok, where=m, node=rets[0] if rets else m.node, construct=norm_text(e) if e is not None else "", message=f"{name} must be native_for_slim[{src}] (the same pixels, in slim order)")
    dm = p.cls("autoarray.mask.derive.mask_2d:DeriveMask2D")
    for name, src in (("edge", "edge_native"), ("border", "border_native")):
        m = dm.lookup(name)
        if m is None:
            raise AnchorMissing(f"DeriveMask2D.{name}")
        # name-free: what is returned, with the locals substituted (sa/paths.py)
        PS = paths.path_summaries(m)
        rets = paths.returns(PS) if PS is not None else []
        ok = len(rets) == 1 and not rets[0].conds and isinstance(rets[0].value, ast.Call)
        rk = {k: paths.ptext(v) for k, v in paths.kwargs(rets[0].value).items()} if ok else {}
        sp = paths.store_parts(paths.kwargs(rets[0].value).get("mask")) if ok else None
        ok = ok and sp is not None and paths.ptext(sp[0]) in tuple(f"np.full({sh},True)" for sh in ("self.mask.shape", "self.mask.shape_native")) + tuple(f"np.ones({sh},dtype=bool)" for sh in ("self.mask.shape", "self.mask.shape_native")) \
            and paths.ptext(sp[1]) == f"(self.derive_indexes.{src}[:,0],self.derive_indexes.{src}[:,1])" and paths.ptext(sp[2]) == "False"
        ok = ok and {k: v for k, v in rk.items() if k != "mask"} == {"pixel_scales": "self.mask.pixel_scales", "origin": "self.mask.origin"} and set(rk) == {"mask", "pixel_scales", "origin"}
        rk = {k: v[:80] for k, v in rk.items()}
        ctx.ob(rule, f"{dm.key}.{name}", ok, where=m, node=m.node, construct=str(rk), message=f"the {name} mask must be all-True except [{src}[:,0], {src}[:,1]] = False, on the parent's geometry")
    dg = p.cls("autoarray.mask.derive.grid_2d:DeriveGrid2D")
    for name, src in (("edge", "edge_slim"), ("border", "border_slim")):
        m = dg.lookup(name)
        if m is None:
            raise AnchorMissing(f"DeriveGrid2D.{name}")
        rets = wire.returns_of(m)
        rk = wire.kwr(m, rets[0].value) if len(rets) == 1 and isinstance(rets[0].value, ast.Call) else {}   # name-free
        ok = rk == {"values": f"self.unmasked[self.mask.derive_indexes.{src}]", "mask": f"self.mask.derive_mask.{name}"}
        ctx.ob(rule, f"{dg.key}.{name}", ok, where=m, node=m.node, construct=str(rk), message=f"the {name} grid must be the unmasked grid indexed by {src}, on the {name} mask")


def run(ctx):
    p = ctx.p
    K = KEval(p)
    ctx.rule("C10.blurring", "blurring mask: footprint offsets range((-K+1)//2, (K+1)//2) per own kernel axis around unmasked pixels; in-frame test per own array axis; only masked pixels unmasked; out-of-frame raises MaskException")
    ctx.rule("C10.edge-test", "edge test: True iff one of the eight in-array neighbours {-1,0,1}^2 is masked, every neighbour read bounds-guarded on its own axis")
    ctx.rule("C10.edge-index", "edge list: slim index counted over EVERY unmasked pixel of the full mask (E3), entry recorded iff unmasked and edge test passes, sized by the same predicate")
    ctx.rule("C10.border", "border test: the four axis-direction walks with counts y, W-x-1, H-y-1, x along the pixel's own column / row; border list = edge pixels passing it, in order, same mask throughout")
    ctx.rule("C10.views", "native / mask / grid views of edge and border all derive from the same slim lists through native_for_slim[...] / unmasked[...]")
    blurring_rule(ctx, p, K)
    edge_test_rule(ctx, p, K)
    edge_lists_rule(ctx, p, K)
    border_rule(ctx, p, K)
    views_rule(ctx, p)


_M = "autoarray/mask/mask_2d_util.py"
CONTROLS = [
    Control("blurring bounds use the other axis (seed C10/1)", _M, in_func("blurring_mask_2d_from", "0 <= x + x1 <= mask_2d.shape[1] - 1\n                            and 0 <= y + y1 <= mask_2d.shape[0] - 1", "0 <= x + x1 <= mask_2d.shape[0] - 1\n                            and 0 <= y + y1 <= mask_2d.shape[1] - 1"), "C10.blurring"),
    Control("footprint y offsets from kernel axis 1", _M, in_func("blurring_mask_2d_from", "(-kernel_shape_native[0] + 1) // 2,\n                    (kernel_shape_native[0] + 1) // 2,", "(-kernel_shape_native[1] + 1) // 2,\n                    (kernel_shape_native[1] + 1) // 2,"), "C10.blurring"),
    Control("blurring unmasks every footprint pixel", _M, in_func("blurring_mask_2d_from", "                            if mask_2d[y + y1, x + x1]:\n                                blurring_mask_2d[y + y1, x + x1] = False", "                            if True:\n                                blurring_mask_2d[y + y1, x + x1] = False"), "C10.blurring"),
    Control("out-of-frame silently skipped", _M, in_func("blurring_mask_2d_from", "                        else:\n                            raise exc.MaskException(\n                                \"setup_blurring_mask extends beyond the edge \"\n                                \"of the mask - pad the datas array before masking\"\n                            )\n", ""), "C10.blurring"),
    Control("edge test vectorised with negative slice start (seed C10/2)", _M, in_func("check_if_edge_pixel", "    for y_offset in range(-1, 2):", "    return bool(np.any(mask_2d[y - 1 : y + 2, x - 1 : x + 2]))\n\n    for y_offset in range(-1, 2):"), "C10.edge-test"),
    Control("edge test only 4-connected", _M, in_func("check_if_edge_pixel", "for x_offset in range(-1, 2):", "for x_offset in range(0, 1):"), "C10.edge-test"),
    Control("edge slim index over interior only (original defect)", _M, in_func("edge_1d_indexes_from", "    for y in range(mask_2d.shape[0]):\n        for x in range(mask_2d.shape[1]):", "    for y in range(1, mask_2d.shape[0] - 1):\n        for x in range(1, mask_2d.shape[1] - 1):"), "C10.edge-index"),
    Control("border right walk off by one", _M, in_func("check_if_border_pixel", "== mask_2d.shape[1] - x - 1", "== mask_2d.shape[1] - x"), "C10.border"),
    Control("border down walk uses row instead of column", _M, in_func("check_if_border_pixel", "np.sum(mask_2d[y : mask_2d.shape[0], x])", "np.sum(mask_2d[y, x : mask_2d.shape[0]])"), "C10.border"),
    Control("border grid indexed by edge list", "autoarray/mask/derive/grid_2d.py", in_func("DeriveGrid2D.border", "self.unmasked[self.mask.derive_indexes.border_slim]", "self.unmasked[self.mask.derive_indexes.edge_slim]"), "C10.views"),
    Control("twin: bounds written with <", _M, in_func("blurring_mask_2d_from", "0 <= x + x1 <= mask_2d.shape[1] - 1", "0 <= x + x1 < mask_2d.shape[1]"), None, twin=True),
]
