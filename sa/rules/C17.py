"""C17 - grid decorators return containers mirroring the input grid, entry k for point k (DESIGN.md section 4, C17)."""
from __future__ import annotations

import ast
from typing import List, Optional

from .. import wire, paths
from ..model import canon_src, norm_text, AnchorMissing, FuncInfo
from ..controls import Control
from ..mutate import in_func

D = "autoarray.structures.decorators"


def nested(p, modname: str, outer: str, inner: str = "wrapper") -> FuncInfo:
    m = p.module(modname)
    o = m.functions.get(outer)
    if o is None:
        raise AnchorMissing(f"{modname}:{outer}")
    w = [f for f in m.all_funcs if f.parent is o and f.name == inner]
    if not w:
        raise AnchorMissing(f"{modname}:{outer}.<locals>.{inner}")
    return w[0]


def dispatch_rule(ctx, p):
    rule = "C17.dispatch"
    c = p.cls(f"{D}.abstract:AbstractMaker")
    r = c.lookup("result")
    if r is None:
        raise AnchorMissing("AbstractMaker.result")
    want = {"Grid2D": "via_grid_2d", "Grid2DIrregular": "via_grid_2d_irr", "Grid1D": "via_grid_1d"}
    # decided on the name-free path summaries (sa/paths.py): per path, the isinstance tests that hold and what is returned
    got = {}
    PS = paths.returns(paths.path_summaries(r) or [])
    kinds = ("Grid2D", "Grid2DIrregular", "Grid1D")
    okd = bool(PS)
    for q in PS:
        v = q.value
        vargs = (list(v.args) + [k.value for k in v.keywords]) if isinstance(v, ast.Call) else []
        holds = [k for k in kinds if q.holds(f"isinstance(self.grid, {k})") is True]
        if isinstance(v, ast.Call) and isinstance(v.func, ast.Attribute) and paths.ptext(v.func.value) == "self" and len(vargs) == 1 and paths.ptext(vargs[0]) == "self.evaluate_func" and len(holds) == 1:
            # the first test that holds selects the converter: every earlier kind must have been excluded on this path
            earlier = kinds[:kinds.index(holds[0])]
            got[holds[0]] = v.func.attr if all(q.holds(f"isinstance(self.grid, {k})") is False for k in earlier) else "?"
        elif paths.ptext(v) == "self.evaluate_func" and not holds and all(q.holds(f"isinstance(self.grid, {k})") is False for k in kinds):
            got["<other>"] = "plain"
        else:
            okd = False
            got[f"<unexpected {q.text[:40]}>"] = str(q.conds)[:80]
    ctx.ob(rule, r.key, okd and {k: v for k, v in got.items() if k != "<other>"} == want and got.get("<other>") == "plain", where=r, node=r.node, construct=str(got),
           message="the result must dispatch on exactly Grid2D / Grid2DIrregular / Grid1D to via_grid_2d / via_grid_2d_irr / via_grid_1d with the evaluated function result passed untouched, and return the plain result otherwise")
    e = c.lookup("evaluate_func")
    if e is None:
        raise AnchorMissing("AbstractMaker.evaluate_func")
    PS = paths.returns(paths.path_summaries(e) or [])
    calls = [cc for cc in e.calls() if norm_text(cc.func) == "self.func"]
    ok = bool(PS)
    det = []
    seen = set()
    for q in PS:
        v = q.value
        is1d = q.holds("isinstance(self.grid, Grid1D)")
        seen.add(is1d)
        args = [paths.ptext(a) for a in v.args] if isinstance(v, ast.Call) else []
        det.append((args[:2], q.conds))
        want_grid = "self.grid.grid_2d_radial_projected_from()" if is1d is True else "self.grid"
        ok = ok and isinstance(v, ast.Call) and paths.ptext(v.func) == "self.func" and is1d is not None and args[:2] == ["self.obj", want_grid] and q.text.endswith("*self.args,**self.kwargs)") and len(v.args) == 3 and len(v.keywords) == 1
    ok = ok and seen == {True, False}
    ctx.ob(rule, e.key, ok, where=e, node=calls[0] if calls else e.node, construct=str(det), message="the user function must receive the input grid itself (its radial projection for a Grid1D), the object and the caller's extra arguments")
    ms = c.lookup("mask")
    rets = wire.returns_of(ms) if ms else []
    ctx.ob(rule, c.key + ".mask", len(rets) == 1 and norm_text(rets[0].value) == "self.grid.mask", where=ms or c, node=rets[0] if rets else None, construct=norm_text(rets[0].value) if rets else "", message="the maker's mask must be the INPUT grid's mask")


def container_rule(ctx, p):
    rule = "C17.container"
    spec = [
        (f"{D}.to_array:ArrayMaker", "via_grid_2d", "Array2D", {"mask": ["self.mask", "self.grid.mask"]}),
        (f"{D}.to_array:ArrayMaker", "via_grid_2d_irr", "ArrayIrregular", {}),
        (f"{D}.to_array:ArrayMaker", "via_grid_1d", "Array1D", {"mask": ["self.mask", "self.grid.mask"]}),
        (f"{D}.to_grid:GridMaker", "via_grid_2d", "Grid2D", {"mask": ["self.mask", "self.grid.mask"], "over_sampling": ["self.over_sampling", "self.grid.over_sampling"]}),
        (f"{D}.to_grid:GridMaker", "via_grid_2d_irr", "Grid2DIrregular", {}),
        (f"{D}.to_grid:GridMaker", "via_grid_1d", "Grid2D", {"mask": ["self.mask.derive_mask.to_mask_2d", "self.grid.mask.derive_mask.to_mask_2d"]}),
        (f"{D}.to_vector_yx:VectorYXMaker", "via_grid_2d", "VectorYX2D", {"mask": ["self.grid.mask", "self.mask"], "grid": ["self.grid"]}),
        (f"{D}.to_vector_yx:VectorYXMaker", "via_grid_2d_irr", "VectorYX2DIrregular", {"grid": ["self.grid"]}),
    ]
    n = 0
    for ck, meth, cont, extra in spec:
        c = p.cls(ck)
        m = c.methods.get(meth)
        if m is None:
            raise AnchorMissing(f"{ck}.{meth}")
        rets = wire.returns_of(m)
        single = [r for r in rets if isinstance(r.value, ast.Call)]
        lists = [r for r in rets if isinstance(r.value, ast.ListComp)]
        ok = len(single) == 1 and len(lists) == 1 and len(rets) == 2
        det = []
        if ok:
            def check_call(call, valname):
                kwv = {k: norm_text(v) for k, v in wire.kw(call).items()}
                good = norm_text(call.func) == cont and kwv.get("values") == valname and set(kwv) == {"values"} | set(extra)
                for k, alts in extra.items():
                    good = good and kwv.get(k) in alts
                det.append(f"{norm_text(call.func)}({kwv})")
                return good
            ok = check_call(single[0].value, "result")
            # the single-result form is taken exactly when the result is not a list, the comprehension exactly when it is
            ok = ok and wire.path_conds(m, single[0]) == [("isinstance(result, list)", False)] and wire.path_conds(m, lists[0]) == [("isinstance(result, list)", True)]
            lc = lists[0].value
            ok = ok and len(lc.generators) == 1 and norm_text(lc.generators[0].iter) == "result" and not lc.generators[0].ifs and isinstance(lc.generators[0].target, ast.Name) and isinstance(lc.elt, ast.Call)
            if ok:
                ok = check_call(lc.elt, lc.generators[0].target.id)
        n += 1
        ctx.ob(rule, f"{ck}.{meth}", ok, where=m, node=m.node, construct="; ".join(det)[:300],
               message=f"the function result must reach {cont}(values=...) with no intervening operation - element by element, in order, for a list - on the INPUT grid's mask" + (f" ({extra})" if extra else ""))
    ctx.require_count(rule, "container makers", n, 8)
    # wrappers hand func, obj, grid and the extra arguments to the maker and return its result
    for modname, outer, maker in ((f"{D}.to_array", "to_array", "ArrayMaker"), (f"{D}.to_grid", "to_grid", "GridMaker"), (f"{D}.to_vector_yx", "to_vector_yx", "VectorYXMaker")):
        w = nested(p, modname, outer)
        rets = wire.returns_of(w)
        ok = len(rets) == 1 and norm_text(wire.inline_locals(w, rets[0].value)) == f"{maker}(*args, func=func, obj=obj, grid=grid, **kwargs).result"   # directly or through a local holding the maker
        ctx.ob(rule, w.key, ok, where=w, node=rets[0] if rets else w.node, construct=norm_text(rets[0].value) if rets else "", message=f"the decorator must return {maker}(func=func, obj=obj, grid=grid, *args, **kwargs).result")


def project_rule(ctx, p):
    """decided on the decision table of the wrapper (sa/paths.py): every returning path with the atomic conditions that hold on it and the value it returns, locals substituted"""
    rule = "C17.project"
    w = nested(p, f"{D}.project_grid", "project_grid")
    PS = paths.path_summaries(w, project=p)
    if PS is None:
        ctx.ob(rule, w.key, None, message="too many paths through the project_grid wrapper")
        return
    rets = paths.returns(PS)
    res = {k: [] for k in ("centre", "angle", "defaults", "types", "Grid2D", "Grid1D", "Grid2DIrregular")}
    kinds = ("Grid2D", "Grid2DIrregular", "Grid1D")
    seen_types = set()
    def is_kind(q, k):
        """truth of isinstance(grid, k) on the path: tested directly, or through a tuple test (`isinstance(grid, (A, B))` true with A false gives B; false gives neither)"""
        d = q.holds(f"isinstance(grid, {k})")
        if d is not None:
            return d
        for t, truth in q.conds:
            if t.startswith("isinstance(grid, (") and t.endswith("))"):
                members = [m.strip() for m in t[len("isinstance(grid, ("):-2].split(",") if m.strip()]
                if k in members:
                    if not truth:
                        return False
                    if all(q.holds(f"isinstance(grid, {m})") is False for m in members if m != k):
                        return True
        return None

    for q in rets:
        ty = [k for k in kinds if is_kind(q, k) is True]
        ty = ty[0] if ty and all(is_kind(q, k) is False for k in kinds[:kinds.index(ty[0])]) else None
        # which attribute of the profile is available on this path: only `hasattr` and `is not None` tests may decide it (a truthiness test would discard 0);
        # an attribute must be decided on the paths that use it (centre: Grid2D; angle: Grid2D and Grid1D)
        exp = {}
        text = q.text
        for attr, used, dflt in (("centre", "obj.centre", "(0.0,0.0)"), ("angle", "obj.angle+90.0", "0.0")):
            has = q.holds(f"hasattr(obj, '{attr}')")
            notnone = q.holds(f"obj.{attr} is not None")
            ga = q.holds(f"getattr(obj, '{attr}', None) is not None")
            avail = (has is True and notnone is True) or ga is True
            decided = avail or has is False or notnone is False or ga is False
            exp[attr] = used if avail else dflt
            if ga is True:
                text = text.replace(f"getattr(obj,'{attr}',None)", f"obj.{attr}")   # the attribute exists and is not None on this path: the fetch with a default is the attribute
            truthy = [t for t, _ in q.conds if t in (f"obj.{attr}", f"getattr(obj, '{attr}', None)")]
            needed = ty == "Grid2D" or (ty == "Grid1D" and attr == "angle") or ty is None
            res[attr].append(((decided or not needed) and not truthy, q, f"{attr}: hasattr={has} not-None={notnone} getattr-not-None={ga}" + (" (truthiness test)" if truthy else "")))
        if ty is None:
            res["types"].append((False, q, str(q.conds)[:120]))
            continue
        seen_types.add(ty)
        v = q.value
        F_plain = "func(obj,grid,*args,**kwargs)"
        if ty in ("Grid2D", "Grid1D"):
            proj = f"grid.grid_2d_radial_projected_from(angle={exp['angle']},centre={exp['centre']})" if ty == "Grid2D" else f"grid.grid_2d_radial_projected_from(angle={exp['angle']})"
            want = f"Array1D.no_mask(pixel_scales=grid.pixel_scale,values=func(obj,{proj},*args,**kwargs))"
            ok_ = text == want
            res[ty].append((ok_, q, q.text[:150]))
            # the defaults are what is used when the attribute is not available
            res["defaults"].append((ok_ or not ("0.0" in want), q, q.text[:150]))
        else:
            ok_ = q.text in (f"ArrayIrregular(values={F_plain})", f"Grid2DIrregular(values={F_plain})")
            res[ty].append((ok_, q, q.text[:150]))
    res["types"].append((seen_types == set(kinds), None, str(sorted(seen_types))))
    msgs = {"centre": "the profile's centre must be used whenever it exists and is not None (a truthiness test would discard centre = 0)",
            "angle": "the profile's angle must be used whenever it exists and is not None (a truthiness test would discard angle = 0)",
            "defaults": "defaults: centre (0.0, 0.0), angle 0.0",
            "types": "project_grid must handle exactly Grid2D, Grid2DIrregular and Grid1D",
            "Grid2D": "the function must be evaluated on the radially projected grid and its result wrapped, untouched, in an Array1D with the grid's pixel scale",
            "Grid1D": "the function must be evaluated on the radially projected grid and its result wrapped, untouched, in an Array1D with the grid's pixel scale",
            "Grid2DIrregular": "an irregular grid is evaluated as it is and wrapped in the irregular counterpart"}
    for name, items in res.items():
        badi = [x for x in items if not x[0]]
        ctx.ob(rule, f"{w.key}:{name}", bool(items) and not badi, where=w, node=(badi[0][1].node if badi and badi[0][1] is not None else None) or w.node,
               construct=(badi[0][2] if badi else (items[0][2] if items else "no path")), message=msgs[name])


def radial_rule(ctx, p):
    rule = "C17.radial-minimum"
    w = nested(p, f"{D}.relocate_radial", "relocate_to_radial_minimum")
    # aliases of the caller's grid
    alias = {"grid"}
    changed = True
    while changed:
        changed = False
        for n in w.body_nodes():
            if isinstance(n, ast.Assign) and isinstance(n.targets[0], ast.Name) and n.targets[0].id not in alias:
                v = n.value
                root = None
                if isinstance(v, ast.Call) and norm_text(v.func) in ("np.asarray", "numpy.asarray", "np.asanyarray") and v.args:
                    root = v.args[0]
                elif isinstance(v, ast.Attribute) and v.attr in ("array", "_array", "native", "slim", "T"):
                    root = v.value
                elif isinstance(v, ast.Subscript):
                    root = v.value
                elif isinstance(v, ast.Name):
                    root = v
                if isinstance(root, ast.Name) and root.id in alias:
                    alias.add(n.targets[0].id)
                    changed = True
    writes = []
    for n in w.body_nodes():
        if isinstance(n, ast.AugAssign):
            t = n.target
            base = t.value if isinstance(t, ast.Subscript) else t
            writes.append((norm_text(base), n))
        elif isinstance(n, ast.Assign) and isinstance(n.targets[0], (ast.Subscript, ast.Attribute)):
            writes.append((norm_text(n.targets[0].value), n))
        elif isinstance(n, ast.Call) and wire.kw(n).get("out") is not None:
            writes.append((norm_text(wire.kw(n)["out"]), n))
    bad = [(b, n) for b, n in writes if b in alias]
    ctx.ob(rule, w.key + ":no-input-write", not bad, where=w, node=bad[0][1] if bad else w.node, construct=norm_text(bad[0][1])[:120] if bad else f"aliases of the input grid: {sorted(alias)}",
           message="the decorator writes into the caller's grid (or a view of it); coordinates must be moved on a new array")
    # what the decorated function finally receives, with every local substituted (sa/paths.py): func(obj, <moved grid>, *args, **kwargs) where
    # <moved grid> = [grid.with_new_array](np.multiply(grid, np.where(R < MIN, MIN / R, 1.0)[:, None])) with NaNs set to MIN
    MIN = "conf.instance['grids']['radial_minimum']['radial_minimum'][obj.__class__.__name__]"
    R = "obj.radial_grid_from(grid=grid)"
    PS = paths.path_summaries(w, project=p) or []
    rets = paths.returns(PS)
    res = {"factor": [], "apply": [], "evaluate": [], "structure": [], "config": []}
    for q in rets:
        v = q.value
        okf = isinstance(v, ast.Call) and paths.ptext(v.func) == "func" and len(v.args) >= 2 and paths.ptext(v.args[0]) == "obj" and q.text.endswith("*args,**kwargs)")
        moved = v.args[1] if okf else None
        sp = paths.store_parts(moved) if moved is not None else None
        if sp is not None:   # the NaN repair: moved[isnan(moved)] = MIN
            base = sp[0]
            okf = okf and paths.ptext(sp[1]) in (f"np.isnan(np.array({paths.ptext(base)}))", f"np.isnan({paths.ptext(base)})") and paths.ptext(sp[2]) == MIN
            moved = base
        res["evaluate"].append((okf, q, q.text[:120]))
        structured = q.holds("hasattr(grid, 'with_new_array')")
        inner = moved
        if isinstance(moved, ast.Call) and isinstance(moved.func, ast.Attribute) and moved.func.attr == "with_new_array":
            oks = structured is True and paths.ptext(moved.func.value) == "grid" and len(moved.args) + len(moved.keywords) == 1
            inner = (moved.args + [k.value for k in moved.keywords])[0] if oks else None
            res["structure"].append((oks, q, paths.ptext(moved)[:100]))
        else:
            res["structure"].append((structured is False, q, f"no with_new_array under hasattr = {structured}"))
        okm = isinstance(inner, ast.Call) and paths.ptext(inner.func) in ("np.multiply", "numpy.multiply") and len(inner.args) == 2 and not inner.keywords and paths.ptext(inner.args[0]) == "grid" \
            and isinstance(inner.args[1], ast.Subscript) and paths.ptext(inner.args[1].slice) in (":,None", "(:,None)", "(:,np.newaxis)")
        res["apply"].append((okm, q, paths.ptext(inner)[:100] if inner is not None else "missing"))
        scale = inner.args[1].value if okm else None
        okw = isinstance(scale, ast.Call) and paths.ptext(scale.func) in ("np.where", "numpy.where") and len(scale.args) == 3 and not scale.keywords
        if okw:
            cnd, a_, b_ = (paths.ptext(x) for x in scale.args)
            radius = cnd[:-len("<" + MIN)] if cnd.endswith("<" + MIN) else None
            res["config"].append((radius is not None, q, cnd[:140]))
            okw = radius == R and a_ == f"{MIN}/{R}" and b_ in ("1.0", "1")
        res["factor"].append((okw, q, paths.ptext(scale)[:160] if scale is not None else "missing"))
    msgs = {"factor": "rows with radius < minimum must be scaled by minimum / radius and every other row by the literal 1.0, the radius being the profile's own radial distance of the input grid",
            "apply": "the scale must be applied row by row to the input grid into a new array",
            "evaluate": "the function must be evaluated on the relocated grid",
            "structure": "a structured grid must be rebuilt around the moved coordinates (same mask)",
            "config": "the minimum must be the configured value for the profile's class"}
    for name, items in res.items():
        badi = [x for x in items if not x[0]]
        ctx.ob(rule, w.key + ":" + name, bool(items) and not badi and len(rets) == 2, where=w, node=(badi[0][1].node if badi else None) or w.node, construct=(badi[0][2] if badi else (items[0][2] if items else "no returning path")), message=msgs[name])


def transform_rule(ctx, p):
    """decided on the wrapper's returning paths (sa/paths.py): already transformed -> func(obj, grid, ...) as it is; otherwise func on the grid transformed to the profile's frame, once"""
    rule = "C17.transform"
    w = nested(p, f"{D}.transform", "transform")
    PS = paths.returns(paths.path_summaries(w, project=p) or [])
    ok = bool(PS)
    det = []
    seen = set()
    for q in PS:
        flag = q.holds("kwargs.get('is_transformed')")
        seen.add(flag)
        v = q.value
        okq = isinstance(v, ast.Call) and paths.ptext(v.func) == "func" and len(v.args) >= 2 and paths.ptext(v.args[0]) == "obj" and len(q.conds) == 1
        g = paths.ptext(v.args[1]) if okq else ""
        det.append((flag, q.text[:110]))
        if flag is True:
            okq = okq and g == "grid"
        elif flag is False:
            okq = okq and g.startswith("obj.transformed_to_reference_frame_grid_from(grid") and g.count("transformed_to_reference_frame_grid_from") == 1
        else:
            okq = False
        ok = ok and okq
    ctx.ob(rule, w.key, ok and seen == {True, False}, where=w, node=w.node, construct=str(det)[:300], message="the grid must be transformed to the profile frame exactly once (not again when already transformed) and the function's result returned untouched")


def run(ctx):
    p = ctx.p
    ctx.rule("C17.dispatch", "the makers dispatch on exactly Grid2D / Grid2DIrregular / Grid1D; the user function receives the input grid itself (radial projection for Grid1D) and its result is passed on untouched")
    ctx.rule("C17.container", "the result reaches the container's values= with no intervening operation (element by element for lists), on the INPUT grid's mask")
    ctx.rule("C17.project", "project_grid evaluates on the radially projected grid (centre / angle + 90 taken when not None) and wraps the result in an Array1D with the grid's pixel scale")
    ctx.rule("C17.radial-minimum", "rows with radius < minimum scaled by minimum / radius, all others by 1.0, on a new array; the caller's grid is never written; function evaluated on the relocated grid")
    ctx.rule("C17.transform", "transform decorator: transformed once, result untouched")
    dispatch_rule(ctx, p)
    container_rule(ctx, p)
    project_rule(ctx, p)
    radial_rule(ctx, p)
    transform_rule(ctx, p)


_P = "autoarray/structures/decorators/"
CONTROLS = [
    Control("Grid1D branch gets the unprojected grid", _P + "abstract.py", in_func("AbstractMaker.evaluate_func", "return self.func(self.obj, grid, *self.args, **self.kwargs)", "return self.func(self.obj, self.grid, *self.args, **self.kwargs)"), "C17.dispatch"),
    Control("irregular grids sent to the uniform maker", _P + "abstract.py", in_func("AbstractMaker.result", "return self.via_grid_2d_irr(self.evaluate_func)", "return self.via_grid_2d(self.evaluate_func)"), "C17.dispatch"),
    Control("list results reversed", _P + "to_array.py", in_func("ArrayMaker.via_grid_2d", "for res in result]", "for res in reversed(result)]"), "C17.container"),
    Control("array built on a fresh unmasked mask", _P + "to_array.py", in_func("ArrayMaker.via_grid_2d", "return Array2D(values=result, mask=self.mask)", "return Array2D(values=result, mask=self.mask.derive_mask.all_false)"), "C17.container"),
    Control("vector values scaled", _P + "to_vector_yx.py", in_func("VectorYXMaker.via_grid_2d", "return VectorYX2D(values=result, grid=self.grid, mask=self.grid.mask)", "return VectorYX2D(values=result * 1.0, grid=self.grid, mask=self.grid.mask)"), "C17.container"),
    Control("angle tested by truthiness (seed C17/2)", _P + "project_grid.py", in_func("project_grid", "        if hasattr(obj, \"angle\"):\n            if obj.angle is not None:\n                angle = obj.angle + 90.0", "        if getattr(obj, \"angle\", None):\n            angle = obj.angle + 90.0"), "C17.project"),
    Control("projection ignores the profile centre", _P + "project_grid.py", in_func("project_grid", "centre=centre, angle=angle", "angle=angle"), "C17.project"),
    Control("in-place rescale of the caller's grid (seed C17/1 shape)", _P + "relocate_radial.py", in_func("relocate_to_radial_minimum", "            moved_grid = np.multiply(grid, grid_radial_scale[:, None])", "            moved_grid = np.asarray(grid)\n            moved_grid *= grid_radial_scale[:, None]"), "C17.radial-minimum"),
    Control("relocation uses <=", _P + "relocate_radial.py", in_func("relocate_to_radial_minimum", "grid_radii < grid_radial_minimum, grid_radial_minimum / grid_radii, 1.0", "grid_radii <= grid_radial_minimum, grid_radial_minimum / grid_radii, 1.0"), "C17.radial-minimum"),
    Control("twin: comparison written the other way round", _P + "relocate_radial.py", in_func("relocate_to_radial_minimum", "grid_radii < grid_radial_minimum, grid_radial_minimum / grid_radii, 1.0", "grid_radial_minimum > grid_radii, grid_radial_minimum / grid_radii, 1.0"), None, twin=True),
    Control("function evaluated on the original grid", _P + "relocate_radial.py", in_func("relocate_to_radial_minimum", "return func(obj, moved_grid, *args, **kwargs)", "return func(obj, grid, *args, **kwargs)"), "C17.radial-minimum"),
]
