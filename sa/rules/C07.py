"""C07 - regularization matrices are symmetric PSD with the stated quadratic form (DESIGN.md section 4, C07)."""
from __future__ import annotations

import ast
from fractions import Fraction

from ..keval import KEval, Ref, Cond, Const, Top
from ..poly import Poly, ZERO, ONE
from ..forms import value_poly, real_guards, short, canon_store, ref_store, src_poly
from .. import wire, paths
from ..model import canon_src, norm_text, AnchorMissing
from ..controls import Control
from ..mutate import in_func

S_ = Poly.sym
E_ = Poly.elem
RU = "autoarray.inversion.regularization.regularization_util"
RIDGE = Poly.const(Fraction("1e-8"))
L0, L1, L2, L3 = (S_(f"L{k}") for k in range(4))
TWO = Poly.const(2)


def need(f, *names):
    for n in names:
        if n not in f.all_params:
            raise AnchorMissing(f"{f.key}: parameter {n}")


def update_shape(ctx, rule, p, K, key, want, init_shape=None, what="", out=None, args=None):
    """the set of updates applied to the returned matrix (as canonical stores) must equal the reference set"""
    f = p.func(key)
    S = K.summarize(f, args)
    outs = S.returned_array_names()
    if len(outs) != 1:
        ctx.ob(rule, key, None, message=f"expected one returned array, got {outs}")
        return None
    sts = S.stores_to(outs[0])
    from ..forms import net_updates
    got = sorted(net_updates(list(map(canon_store, sts))), key=repr)
    w = sorted(net_updates(list(want)), key=repr)
    ok = got == w
    miss = [x for x in w if x not in got]
    extra = [x for x in got if x not in w]
    node = sts[0].node if sts else f.node
    for s in sts:
        if any(canon_store(s)[0] == x[0] and canon_store(s)[3] == x[3] for x in extra):
            node = s.node
            break
    ctx.ob(rule, key, ok, where=f, node=node, construct=("unexpected update " + str(extra[0])[:260]) if extra else ("missing update " + str(miss[0])[:260] if miss else f"{len(got)} updates"),
           message=f"the matrix must be assembled by exactly the reference updates {what}", detail=[str(x)[:200] for x in w])
    ref = S.env.get(outs[0])
    init, shp = getattr(ref, "init", None), getattr(ref, "shape", None)
    okz = init is not None and init[0] == "zeros" and (init_shape is None or shp == init_shape)
    ctx.ob(rule, key + ":zeros", okz, where=f, node=f.node, construct=f"init {init} shape {shp}", message="the matrix must start as zeros of size parameters x parameters")
    return S


def util_rule(ctx, p, K):
    rule = "C07.assembly"
    c2 = S_("coefficient") * S_("coefficient")
    n = S_("neighbors.shape[0]")
    nb = E_("neighbors", L0, L1)
    rowloop = (ZERO, n, ONE)
    nbloop = (ZERO, E_("neighbors_sizes", L0), ONE)
    # constant: per neighbour +c on [i,i], -c on [i,n]; ridge once per row
    update_shape(ctx, rule, p, K, f"{RU}:constant_regularization_matrix_from", [
        ref_store((L0, L0), "+=", RIDGE, [rowloop]),
        ref_store((L0, L0), "+=", c2, [rowloop, nbloop]),
        ref_store((L0, nb), "-=", c2, [rowloop, nbloop]),
    ], init_shape=(n, n), what="(Laplacian shape: +c on [i,i] and -c on [i,n] per neighbour with c = coefficient^2; 1e-8 ridge once per row)")
    cz2 = S_("coefficient_zeroth") * S_("coefficient_zeroth")
    update_shape(ctx, rule, p, K, f"{RU}:constant_zeroth_regularization_matrix_from", [
        ref_store((L0, L0), "+=", RIDGE, [rowloop]),
        ref_store((L0, L0), "+=", cz2, [rowloop]),
        ref_store((L0, L0), "+=", c2, [rowloop, nbloop]),
        ref_store((L0, nb), "-=", c2, [rowloop, nbloop]),
    ], init_shape=(n, n), what="(constant scheme plus coefficient_zeroth^2 on the diagonal)")
    update_shape(ctx, rule, p, K, f"{RU}:zeroth_regularization_matrix_from", [ref_store((L0, L0), "+=", c2, [(ZERO, S_("pixels"), ONE)])], init_shape=(S_("pixels"), S_("pixels")), what="(coefficient^2 on the diagonal)")
    # weighted: four symmetric updates with w_n^2
    m = S_("regularization_weights.shape[0]")
    w2 = E_("regularization_weights", nb) * E_("regularization_weights", nb)
    update_shape(ctx, rule, p, K, f"{RU}:weighted_regularization_matrix_from", [
        ref_store((L0, L0), "+=", RIDGE, [(ZERO, m, ONE)]),
        ref_store((L0, L0), "+=", w2, [(ZERO, m, ONE), nbloop]),
        ref_store((nb, nb), "+=", w2, [(ZERO, m, ONE), nbloop]),
        ref_store((L0, nb), "-=", w2, [(ZERO, m, ONE), nbloop]),
        ref_store((nb, L0), "-=", w2, [(ZERO, m, ONE), nbloop]),
    ], init_shape=(m, m), what="(per neighbour n of i: [i,i] += w_n^2, [n,n] += w_n^2, [i,n] -= w_n^2, [n,i] -= w_n^2 - symmetric by construction, weights squared inside the util)")
    wi2 = E_("regularization_weights", L0) * E_("regularization_weights", L0)
    update_shape(ctx, rule, p, K, f"{RU}:brightness_zeroth_regularization_matrix_from", [ref_store((L0, L0), "+=", wi2, [(ZERO, m, ONE)])], init_shape=(m, m), what="(w_i^2 on the diagonal)")
    # split-cross scheme: every update mirrored with one value, diagonal (m = 0) added twice and halved afterwards, ridge 2e-8 -> 1e-8
    P = Poly.fn("fdiv", S_("splitted_mappings.shape[0]"), Poly.const(4))
    k = Poly.const(4) * L0 + L1
    size = E_("splitted_sizes", k)
    mp = lambda t: E_("splitted_mappings", k, t)
    wt = lambda t: E_("splitted_weights", k, t)
    val = wt(L2) * wt(L2 + L3) * E_("regularization_weights", L0) * E_("regularization_weights", L0)
    loops4 = [(ZERO, P, ONE), (ZERO, Poly.const(4), ONE), (ZERO, size, ONE), (ZERO, size - L2, ONE)]
    update_shape(ctx, rule, p, K, f"{RU}:pixel_splitted_regularization_matrix_from", [
        ref_store((L0, L0), "+=", TWO * RIDGE, [(ZERO, P, ONE)]),
        ref_store((mp(L2), mp(L2 + L3)), "+=", val, loops4),
        ref_store((mp(L2 + L3), mp(L2)), "+=", val, loops4),
        ref_store((L0, L0), "/=", TWO, [(ZERO, P, ONE)]),
    ], init_shape=(P, P), what="(for every cross point k of pixel i and every pair l <= l+m of its interpolation weights: [a,b] and [b,a] += w_l w_{l+m} rw_i^2 - mirrored with one value; the doubly counted diagonal and the 2e-8 ridge halved once)")
    # weights
    for name, want, args in (("adaptive_regularization_weights_from", (S_("inner_coefficient") * S_("pixel_signals") + S_("outer_coefficient") * (ONE - S_("pixel_signals"))) ** 2, None),
                             ("brightness_zeroth_regularization_weights_from", S_("coefficient") * (ONE - S_("pixel_signals")), None)):
        f = p.func(f"{RU}:{name}")
        S = K.summarize(f, args)
        ctx.ob("C07.weights", f.key, isinstance(S.ret, Poly) and S.ret == want, where=f, node=f.node, construct=short(S.ret), message=f"expected {want!r}")


def kernel_rule(ctx, p, K):
    rule = "C07.kernel"
    for modname, fname, kern in (("autoarray.inversion.regularization.gaussian_kernel", "gauss_cov_matrix_from", "gauss"), ("autoarray.inversion.regularization.exponential_kernel", "exp_cov_matrix_from", "exp")):
        n = S_("pixel_points.shape[0]")
        x = lambda t: E_("pixel_points", t, ONE)
        y = lambda t: E_("pixel_points", t, ZERO)
        d2 = (x(L0) - x(L1)) ** 2 + (y(L0) - y(L1)) ** 2
        d = Poly.fn("sqrt", d2)
        if kern == "gauss":
            val = Poly.fn("exp", -(d * d) / (TWO * S_("scale") * S_("scale")))
        else:
            val = Poly.fn("exp", -d / S_("scale"))
        update_shape(ctx, rule, p, K, f"{modname}:{fname}", [
            ref_store((L0, L0), "+=", RIDGE, [(ZERO, n, ONE)]),
            ref_store((L0, L1), "+=", val, [(ZERO, n, ONE), (ZERO, n, ONE)]),
        ], init_shape=(n, n), what="(covariance [i,j] += k(|p_i - p_j|) over ALL pairs - a function of the symmetric distance only - on top of the 1e-8 ridge on the diagonal)")
    for ck, cov in (("autoarray.inversion.regularization.gaussian_kernel:GaussianKernel", "gauss_cov_matrix_from"), ("autoarray.inversion.regularization.exponential_kernel:ExponentialKernel", "exp_cov_matrix_from")):
        c = p.cls(ck)
        m = c.methods.get("regularization_matrix_from")
        if m is None:
            raise AnchorMissing(f"{ck}.regularization_matrix_from")
        callee = p.func(ck.split(":")[0] + ":" + cov)
        cs = wire.calls_to(p, m, callee.key)
        got = {k: norm_text(wire.strip_np_array(v)) for k, v in wire.kw(cs[0], callee).items()} if len(cs) == 1 else {}
        rets = wire.returns_of(m)
        # name-free: coefficient * inv(<the covariance call>) whatever the covariance is held in
        rv = wire.inline_locals(m, rets[0].value) if len(rets) == 1 else None
        inv_ok = False
        if isinstance(rv, ast.BinOp) and isinstance(rv.op, ast.Mult):
            for a_, b_ in ((rv.left, rv.right), (rv.right, rv.left)):
                if norm_text(a_) == "self.coefficient" and isinstance(b_, ast.Call) and norm_text(b_.func) in ("np.linalg.inv", "numpy.linalg.inv") and len(b_.args) == 1 and len(cs) == 1 \
                        and norm_text(b_.args[0], limit=4000) == norm_text(wire.inline_locals(m, cs[0]), limit=4000):
                    inv_ok = True
        ok = got == {"scale": "self.scale", "pixel_points": "linear_obj.source_plane_mesh_grid"} and inv_ok
        ctx.ob(rule, m.key, ok, where=m, node=m.node, construct=f"{got}; returns {norm_text(rets[0].value) if rets else None}", message="the matrix must be coefficient * inverse of the covariance of the object's own mesh points at the scheme's own scale")


def scheme_rule(ctx, p):
    """each scheme's regularization_matrix_from feeds its util with its own coefficients / the object's own neighbours and, where stated, its own reported weights"""
    rule = "C07.scheme"
    R = "autoarray.inversion.regularization"
    spec = [
        (f"{R}.constant:Constant", "constant_regularization_matrix_from", {"coefficient": "self.coefficient", "neighbors": "linear_obj.neighbors", "neighbors_sizes": "linear_obj.neighbors.sizes"}),
        (f"{R}.constant_zeroth:ConstantZeroth", "constant_zeroth_regularization_matrix_from", {"coefficient": "self.coefficient_neighbor", "coefficient_zeroth": "self.coefficient_zeroth", "neighbors": "linear_obj.neighbors", "neighbors_sizes": "linear_obj.neighbors.sizes"}),
        (f"{R}.zeroth:Zeroth", "zeroth_regularization_matrix_from", {"coefficient": "self.coefficient", "pixels": "linear_obj.params"}),
        (f"{R}.adaptive_brightness:AdaptiveBrightness", "weighted_regularization_matrix_from", {"regularization_weights": "self.regularization_weights_from(linear_obj=linear_obj)", "neighbors": "linear_obj.source_plane_mesh_grid.neighbors", "neighbors_sizes": "linear_obj.source_plane_mesh_grid.neighbors.sizes"}),
        (f"{R}.brightness_zeroth:BrightnessZeroth", "brightness_zeroth_regularization_matrix_from", {"regularization_weights": "self.regularization_weights_from(linear_obj=linear_obj)"}),
        (f"{R}.adaptive_brightness_split:AdaptiveBrightnessSplit", "pixel_splitted_regularization_matrix_from", {"regularization_weights": "self.regularization_weights_from(linear_obj=linear_obj)", "splitted_mappings": "splitted_mappings", "splitted_sizes": "splitted_sizes", "splitted_weights": "splitted_weights"}),
        (f"{R}.constant_split:ConstantSplit", "pixel_splitted_regularization_matrix_from", {"regularization_weights": canon_src("np.full(fill_value=self.coefficient, shape=(int(len(splitted_mappings) / 4),))"), "splitted_mappings": "splitted_mappings", "splitted_sizes": "splitted_sizes", "splitted_weights": "splitted_weights"}),
    ]
    n = 0
    for ck, util, want in spec:
        c = p.cls(ck)
        m = c.methods.get("regularization_matrix_from")
        if m is None:
            raise AnchorMissing(f"{ck}.regularization_matrix_from")
        callee = p.func(f"{RU}:{util}")
        cs = wire.calls_to(p, m, callee.key)
        got = wire.kwr(m, cs[0], callee) if len(cs) == 1 else {}   # name-free: local temporaries inlined
        rets = wire.returns_of(m)
        n += 1
        # the three split tables are whatever locals reg_split_from's results were unpacked into (decided by :split-tables below); in the weights they appear through len(<first table>)
        tabs_ = ("splitted_mappings", "splitted_sizes", "splitted_weights")
        ren_ = {got.get(k_): k_ for k_ in tabs_ if k_ in want and isinstance(got.get(k_), str) and got.get(k_).isidentifier()}

        def unren(t_):
            import re as _re
            return _re.sub(r"\b(" + "|".join(map(_re.escape, ren_)) + r")\b", lambda m_: ren_[m_.group(1)], t_) if ren_ else t_
        got = {k_: unren(v_) for k_, v_ in got.items()}
        same = set(got) == set(want) and all(got[k] == want[k] or src_poly(got[k]) == src_poly(want[k]) for k in want)   # canonical forms: int(a / 4) and a // 4 coincide
        ctx.ob(rule, m.key, same and len(rets) == 1 and wire.is_value_of(m, rets[0].value, cs[0]), where=m, node=cs[0] if cs else m.node, construct=str(got),
               message=f"expected {util}({want}) returned untouched (the weights being the ones the scheme itself reports for this linear object)")
        if "splitted_mappings" in want:
            rs = p.func(f"{RU}:reg_split_from")
            c2 = wire.calls_to(p, m, rs.key)
            g2 = wire.kwr(m, c2[0], rs) if len(c2) == 1 else {}
            # the three tables handed to the matrix util are the three results of reg_split_from, in order (however they are unpacked: directly, or through a local holding the triple)
            tab = wire.kwr(m, cs[0], callee, unpack=True) if len(cs) == 1 else {}
            inner = norm_text(wire.inline_locals(m, c2[0]), limit=4000) if c2 else "?"
            oku = [tab.get(k_) for k_ in ("splitted_mappings", "splitted_sizes", "splitted_weights")] == [f"{inner}[{n_}]" for n_ in (0, 1, 2)]
            ctx.ob(rule, m.key + ":split-tables", oku and g2 == {"splitted_mappings": "linear_obj.pix_sub_weights_split_cross.mappings", "splitted_sizes": "linear_obj.pix_sub_weights_split_cross.sizes", "splitted_weights": "linear_obj.pix_sub_weights_split_cross.weights"},
                   where=m, node=c2[0] if c2 else m.node, construct=str(g2), message="the split-cross tables must be the object's own, passed through reg_split_from")
    ctx.require_count(rule, "scheme wiring instances", n, 7)
    # reg_split_from mutates its arguments: every implementation of pix_sub_weights_split_cross must be a plain (non-cached) property so that each call receives fresh tables
    for c in p.all_classes():
        m = c.methods.get("pix_sub_weights_split_cross")
        if m is not None:
            ctx.ob(rule, m.key + ":fresh", m.is_property and not m.is_cached, where=m, node=m.node, construct=str(m.decorators), message="pix_sub_weights_split_cross must not be cached: reg_split_from modifies the tables it is given in place")
    # weights reported by the adaptive schemes use the scheme's own coefficients and the object's own pixel signals
    for ck, util, want in ((f"{R}.adaptive_brightness:AdaptiveBrightness", "adaptive_regularization_weights_from", {"inner_coefficient": "self.inner_coefficient", "outer_coefficient": "self.outer_coefficient", "pixel_signals": "linear_obj.pixel_signals_from(signal_scale=self.signal_scale)"}),
                           (f"{R}.brightness_zeroth:BrightnessZeroth", "brightness_zeroth_regularization_weights_from", {"coefficient": "self.coefficient", "pixel_signals": "linear_obj.pixel_signals_from(signal_scale=self.signal_scale)"})):
        m = p.cls(ck).methods.get("regularization_weights_from")
        callee = p.func(f"{RU}:{util}")
        cs = wire.calls_to(p, m, callee.key)
        got = wire.kwr(m, cs[0], callee) if len(cs) == 1 else {}
        ctx.ob(rule, m.key, got == want, where=m, node=m.node, construct=f"{got}", message=f"expected {want}: the object's pixel signals at the scheme's signal scale")


def block_rule(ctx, p):
    rule = "C07.blocks"
    lo = p.cls("autoarray.inversion.linear_obj.linear_obj:LinearObj").methods.get("regularization_matrix")
    if lo is None:
        raise AnchorMissing("LinearObj.regularization_matrix")
    # name-free path summaries: what is returned under which condition
    PS = paths.path_summaries(lo) or []
    rets = paths.returns(PS)
    zero = [q for q in rets if q.text in ("np.zeros((self.params,self.params))", "np.zeros([self.params,self.params])")]
    own = [q for q in rets if q.text == "self.regularization.regularization_matrix_from(linear_obj=self)"]
    ok = len(zero) == 1 and len(own) == 1 and len(rets) == 2 and zero[0].holds("self.regularization is None") is True and own[0].holds("self.regularization is None") is False \
        and len(zero[0].conds) == 1 and len(own[0].conds) == 1
    ctx.ob(rule, lo.key, ok, where=lo, node=lo.node, construct=str([q.text[:80] for q in rets]), message="an object without regularization contributes an all-zero params x params block; otherwise its own scheme's matrix for itself")
    inv = p.cls("autoarray.inversion.inversion.abstract:AbstractInversion").methods.get("regularization_matrix")
    if inv is None:
        raise AnchorMissing("AbstractInversion.regularization_matrix")
    PS = paths.path_summaries(inv) or []
    rets = [q for q in paths.returns(PS)]
    bd = [q for q in rets if isinstance(q.value, ast.Call) and norm_text(q.value.func) == "block_diag"]
    ok = len(bd) == 1 and len(bd[0].value.args) == 1 and not bd[0].value.keywords and isinstance(bd[0].value.args[0], ast.Starred) and isinstance(bd[0].value.args[0].value, ast.ListComp)
    if ok:
        lc = bd[0].value.args[0].value
        ok = len(lc.generators) == 1 and norm_text(lc.generators[0].iter) == "self.linear_obj_list" and not lc.generators[0].ifs and norm_text(lc.elt) == f"{norm_text(lc.generators[0].target)}.regularization_matrix"
    ctx.ob(rule, inv.key, ok, where=inv, node=bd[0].node if bd else inv.node, construct=bd[0].text[:160] if bd else str([q.text[:60] for q in rets]),
           message="blocks must be assembled by block_diag over self.linear_obj_list in order, one block per object, with no filtering or reordering")
    pre = [q for q in rets if q.text == "self.preloads.regularization_matrix"]
    ctx.ob(rule, inv.key + ":returns", len(rets) == len(bd) + len(pre), where=inv, node=inv.node, construct=str([q.text[:60] for q in rets]), message="the only alternative result is the preloaded matrix")
    # block_diag is scipy's
    imp = inv.module.imports.get("block_diag")
    ctx.ob(rule, inv.key + ":import", imp == "scipy.linalg.block_diag", where=inv, node=inv.node, construct=str(imp), message="block_diag must be scipy.linalg.block_diag")


def run(ctx):
    p = ctx.p
    K = KEval(p)
    ctx.rule("C07.assembly", "every neighbour / split scheme's matrix is assembled by exactly the reference set of updates (canonical forms with loop variables renamed by depth): Laplacian shape with coefficient^2, symmetric four-update form with w_n^2, mirrored split updates, ridge once per row, zeros initially")
    ctx.rule("C07.weights", "adaptive weights (inner*s + outer*(1-s))^2 and brightness-zeroth weights c*(1-s) as canonical forms")
    ctx.rule("C07.kernel", "kernel covariance [i,j] += k(distance(p_i, p_j)) over all pairs on top of the 1e-8 diagonal ridge; matrix = coefficient * inv(cov) of the object's mesh points")
    ctx.rule("C07.scheme", "each scheme feeds its util with its own coefficients, the object's own neighbours / split tables and its own reported weights; split tables are never cached")
    ctx.rule("C07.blocks", "an object without regularization contributes np.zeros((params, params)); blocks assembled by scipy block_diag over linear_obj_list in order, unfiltered")
    util_rule(ctx, p, K)
    kernel_rule(ctx, p, K)
    scheme_rule(ctx, p)
    block_rule(ctx, p)


_U = "autoarray/inversion/regularization/regularization_util.py"
_G = "autoarray/inversion/regularization/gaussian_kernel.py"
CONTROLS = [
    Control("constant scheme: off-diagonal with coefficient not squared", _U, in_func("constant_regularization_matrix_from", "regularization_matrix[i, neighbor_index] -= regularization_coefficient", "regularization_matrix[i, neighbor_index] -= coefficient"), "C07.assembly"),
    Control("constant scheme: ridge added per neighbour", _U, in_func("constant_regularization_matrix_from", "        regularization_matrix[i, i] += 1e-8\n        for j in range(neighbors_sizes[i]):\n            neighbor_index = neighbors[i, j]", "        for j in range(neighbors_sizes[i]):\n            regularization_matrix[i, i] += 1e-8\n            neighbor_index = neighbors[i, j]"), "C07.assembly"),
    Control("weighted scheme: lower mirror dropped", _U, in_func("weighted_regularization_matrix_from", "            regularization_matrix[neighbor_index, i] -= regularization_weight[\n                neighbor_index\n            ]\n", ""), "C07.assembly"),
    Control("weighted scheme: diagonal uses w_i", _U, in_func("weighted_regularization_matrix_from", "regularization_matrix[i, i] += regularization_weight[neighbor_index]", "regularization_matrix[i, i] += regularization_weight[i]"), "C07.assembly"),
    Control("split scheme: mirror uses a different value", _U, in_func("pixel_splitted_regularization_matrix_from", "                    regularization_matrix[mapping[l + m], mapping[l]] += (\n                        weight[l] * weight[l + m] * regularization_weight[i]", "                    regularization_matrix[mapping[l + m], mapping[l]] += (\n                        weight[l] * weight[l] * regularization_weight[i]"), "C07.assembly"),
    Control("split scheme: diagonal not halved", _U, in_func("pixel_splitted_regularization_matrix_from", "    for i in range(parameters):\n        regularization_matrix[i, i] /= 2.0\n", ""), "C07.assembly"),
    Control("adaptive weights not squared", _U, in_func("adaptive_regularization_weights_from", ") ** 2.0", ") ** 1.0"), "C07.weights"),
    Control("kernel: upper triangle assigned, ridge overwritten (seed C07/1)", _G, in_func("gauss_cov_matrix_from", "        for j in range(pixels):", "        for j in range(i, pixels):", count=1) if False else in_func("gauss_cov_matrix_from", "            covariance_matrix[i, j] += np.exp(-1.0 * d_ij**2 / (2 * scale**2))", "            covariance_matrix[i, j] = np.exp(-1.0 * d_ij**2 / (2 * scale**2))\n            covariance_matrix[j, i] = covariance_matrix[i, j]"), "C07.kernel"),
    Control("kernel: distance uses y twice", _G, in_func("gauss_cov_matrix_from", "xj = pixel_points[j, 1]", "xj = pixel_points[j, 0]"), "C07.kernel"),
    Control("adaptive scheme uses the mapper's neighbours of another attribute", "autoarray/inversion/regularization/adaptive_brightness.py", in_func("AdaptiveBrightness.regularization_matrix_from", "neighbors_sizes=linear_obj.source_plane_mesh_grid.neighbors.sizes,", "neighbors_sizes=linear_obj.neighbors.sizes,"), "C07.scheme"),
    Control("blocks: unregularized objects filtered out (seed C07/2 shape)", "autoarray/inversion/inversion/abstract.py", in_func("AbstractInversion.regularization_matrix", "*[linear_obj.regularization_matrix for linear_obj in self.linear_obj_list]", "*[linear_obj.regularization_matrix for linear_obj in self.linear_obj_list if linear_obj.regularization is not None]"), "C07.blocks"),
    Control("zero block of the wrong size", "autoarray/inversion/linear_obj/linear_obj.py", in_func("LinearObj.regularization_matrix", "return np.zeros((self.params, self.params))", "return np.zeros((1, 1))"), "C07.blocks"),
    Control("twin: c computed inline", _U, in_func("constant_regularization_matrix_from", "regularization_matrix[i, i] += regularization_coefficient", "regularization_matrix[i, i] += coefficient * coefficient"), None, twin=True),
]
