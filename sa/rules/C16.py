"""C16 - FITS output followed by input reproduces values, orientation and pixel scale (DESIGN.md section 4, C16)."""
from __future__ import annotations

import ast
from typing import Dict, List, Optional, Set

from .. import wire, paths
from ..model import norm_text, AnchorMissing, FuncInfo, Project
from ..controls import Control
from ..mutate import in_func

A2 = "autoarray.structures.arrays.array_2d_util"
A1 = "autoarray.structures.arrays.array_1d_util"
KEY = "conf.instance['general']['fits']['flip_for_ds9']"


def _is_conf_key(e: ast.expr, f: FuncInfo) -> bool:
    """`conf.instance["general"]["fits"]["flip_for_ds9"]`, directly or through a local bound to it"""
    if isinstance(e, ast.Name):
        for n in f.body_nodes():
            if isinstance(n, ast.Assign) and isinstance(n.targets[0], ast.Name) and n.targets[0].id == e.id:
                return _is_conf_key(n.value, f)
        return False
    return norm_text(e).replace('"', "'") == KEY


def flip_unit(ctx, p, key: str, data_param: Optional[str], units: Optional[Dict[str, int]] = None, bind: Optional[Dict[str, ast.expr]] = None, quiet: bool = False) -> Optional[int]:
    """A function that flips its data exactly once (np.flipud) under the DS9 config key and not at all otherwise.
    Returns 1 if so, 0 if the function contains no flip at all, None (and a finding) otherwise."""
    rule = "C16.flip-unit"
    f = p.func(key)
    flips = [c for c in f.calls() if norm_text(c.func) in ("np.flipud", "numpy.flipud", "np.flip", "numpy.flip")]
    rev = [n for n in f.body_nodes() if isinstance(n, ast.Subscript) and "::-1" in norm_text(n.slice)]
    if not flips and not rev:
        # no flip of its own: what it applies is what the flip units it calls apply (a 1-D writer that delegates to the 2-D HDU writer flips once)
        via = count_flips(p, f, units or {})
        return via if via is not None else 0
    # decided on the name-free path summaries (sa/paths.py; new helpers such as a `_flip_for_ds9()` predicate are looked into): on every returning path the value carries
    # exactly one np.flipud when the DS9 key holds and none when it does not, and the two values differ in nothing else
    # (optional arguments whose default is None are left out - the documented contract; a call that passes one is counted for that value by count_flips)
    env0 = dict(bind or {})
    for q_, d_ in f.defaults.items():
        if q_ not in env0 and isinstance(d_, ast.Constant) and d_.value is None:
            env0[q_] = ast.Constant(value=None)
    PS = paths.path_summaries(f, project=p, env0=env0)
    rets = paths.returns(PS) if PS is not None else []

    def n_flips(v):
        good = [c for c in ast.walk(v) if isinstance(c, ast.Call) and norm_text(c.func) in ("np.flipud", "numpy.flipud")]
        bad = [c for c in ast.walk(v) if (isinstance(c, ast.Call) and norm_text(c.func) in ("np.flip", "numpy.flip", "np.fliplr", "numpy.fliplr")) or (isinstance(c, ast.Subscript) and "::-1" in norm_text(c.slice))]
        return len(good), len(bad)

    class Unflip(ast.NodeTransformer):
        def visit_Call(self, n):
            self.generic_visit(n)
            if norm_text(n.func) in ("np.flipud", "numpy.flipud") and len(n.args) == 1 and not n.keywords:
                return n.args[0]
            return n
    ok = bool(rets)
    det = []
    by_rest: Dict[tuple, Dict[bool, str]] = {}
    for q in rets:
        flag = q.holds(KEY)
        g_, b_ = n_flips(q.value)
        det.append(f"{g_} flipud under {KEY.split('[')[-1][2:-2]}={flag}")
        if b_ or flag is None or g_ != (1 if flag else 0):
            ok = False
            continue
        import copy as _copy
        rest = tuple(sorted(c for c in q.conds if c[0] != KEY))
        by_rest.setdefault(rest, {})[flag] = paths.ptext(Unflip().visit(_copy.deepcopy(q.value)))
    for rest, d in by_rest.items():
        if set(d) != {True, False} or d[True] != d[False]:
            ok = False
            det.append(f"flipped / unflipped values differ: {d.get(True, '-')[:60]} / {d.get(False, '-')[:60]}")
    det = "; ".join(sorted(set(det)))[:300]
    ctx.ob(rule, key, ok if PS is not None else None, where=f, node=flips[0] if flips else f.node, construct=det,
           message="the function must apply np.flipud exactly once, only under general.fits.flip_for_ds9, and otherwise return the same value unflipped")
    return 1 if ok else None


def unit_under(p, f: FuncInfo, bind: Dict[str, ast.expr]) -> Optional[int]:
    """flips applied by flip unit f when it is called with the given literal values for its optional arguments (`flip_for_ds9=False`): 0 when no returning path flips,
    1 when the paths flip exactly under the DS9 key, None otherwise"""
    env0 = dict(bind)
    for q_, d_ in f.defaults.items():
        if q_ not in env0 and isinstance(d_, ast.Constant) and d_.value is None:
            env0[q_] = ast.Constant(value=None)
    PS = paths.path_summaries(f, project=p, env0=env0)
    rets = paths.returns(PS) if PS is not None else []
    if not rets:
        return None
    res = set()
    for q in rets:
        good = [c for c in ast.walk(q.value) if isinstance(c, ast.Call) and norm_text(c.func) in ("np.flipud", "numpy.flipud")]
        bad = [c for c in ast.walk(q.value) if (isinstance(c, ast.Call) and norm_text(c.func) in ("np.flip", "numpy.flip", "np.fliplr", "numpy.fliplr")) or (isinstance(c, ast.Subscript) and "::-1" in norm_text(c.slice))]
        if bad or len(good) > 1:
            return None
        res.add((len(good), q.holds(KEY)))
    if all(g == 0 for g, _ in res):
        return 0
    if all((g == 1 and fl is True) or (g == 0 and fl is False) for g, fl in res):
        return 1
    return None


def count_flips(p, f: FuncInfo, units: Dict[str, int], depth: int = 0) -> Optional[int]:
    """number of flip units applied by f (through resolved callees; class-level wrappers such as Array2D.from_fits are followed)"""
    if depth > 4:
        return 0
    total = 0
    for c in f.calls():
        tg = p.resolve_call(c, f)
        nm = c.func.attr if isinstance(c.func, ast.Attribute) else (c.func.id if isinstance(c.func, ast.Name) else "")
        if norm_text(c.func) in ("np.flipud", "numpy.flipud", "np.fliplr", "numpy.fliplr", "np.flip", "numpy.flip"):
            return None  # a raw flip outside the flip units
        hit = False
        for t in tg:
            if t.key in units:
                # a call that sets an optional argument of the unit to a literal is counted for that value
                lit = {q_: v_ for q_, v_ in Project.bind(c, t)[0].items() if isinstance(v_, ast.Constant) and isinstance(t.defaults.get(q_), ast.Constant) and t.defaults[q_].value is None}
                if lit:
                    u_ = unit_under(p, t, lit)
                    if u_ is None:
                        return None
                    total += u_
                else:
                    total += units[t.key]
                hit = True
                break
        if hit:
            continue
        if nm == "flip_hdu_for_ds9":
            total += units.get("autoarray.abstract_ndarray:AbstractNDArray.flip_hdu_for_ds9", 0)
            continue
        for t in tg[:1]:
            if t.name in ("from_fits", "from_primary_hdu", "hdu_for_output", "output_to_fits") and t is not f:
                sub = count_flips(p, t, units, depth + 1)
                if sub is None:
                    return None
                total += sub
    for n in f.body_nodes():
        if isinstance(n, ast.Subscript) and "::-1" in norm_text(n.slice):
            return None
    return total


def run(ctx):
    p = ctx.p
    ctx.rule("C16.flip-unit", "the four flip points (2-D HDU writer, 2-D file reader, flip_hdu_for_ds9, none in the 1-D utils) flip exactly once under general.fits.flip_for_ds9 and not otherwise")
    ctx.rule("C16.parity", "per class and per route (file / HDU) the writer and the reader apply the same number of flips: one for 2-D structures, none for 1-D; no raw flip elsewhere on the path")
    ctx.rule("C16.sinks", "every fits.PrimaryHDU is created in the two hdu_for_output_from utils and every writeto in the two numpy_array_*_to_fits utils (who-may-call)")
    ctx.rule("C16.header", "header keys written by pixel_scale_header on reachable branches are the keys the readers consume; every handler in the writer is reachable (dead-handler rule)")
    ctx.rule("C16.overwrite", "an existing file is removed before writing iff overwrite is requested; writeto never overwrites by itself; directories are created only for a non-empty directory component")
    ctx.rule("C16.values", "writers hand over the native values (masks as float), readers rebuild with the header's pixel scale; masks read back through a boolean conversion")
    units: Dict[str, int] = {}
    for key, dp in ((f"{A2}:hdu_for_output_from", "array_2d"), (f"{A2}:numpy_array_2d_via_fits_from", None), ("autoarray.abstract_ndarray:AbstractNDArray.flip_hdu_for_ds9", "values"),
                    (f"{A1}:hdu_for_output_from", "array_1d"), (f"{A1}:numpy_array_1d_via_fits_from", None)):
        u = flip_unit(ctx, p, key, dp, units)
        if u is not None:
            units[key] = u
    want_units = {f"{A2}:hdu_for_output_from": 1, f"{A2}:numpy_array_2d_via_fits_from": 1, "autoarray.abstract_ndarray:AbstractNDArray.flip_hdu_for_ds9": 1,
                  f"{A1}:hdu_for_output_from": 0, f"{A1}:numpy_array_1d_via_fits_from": 0}
    for k, w in want_units.items():
        if k in units:
            ctx.ob("C16.flip-unit", k + ":count", units[k] == w, where=p.func(k), node=p.func(k).node, construct=f"{units[k]} flip(s)",
                   message=f"expected {w} flip(s): 2-D data are flipped once on each side, 1-D data never")
    # the file writers go through the HDU writers (so the flip is applied exactly once on the way out)
    for wk, hk in ((f"{A2}:numpy_array_2d_to_fits", f"{A2}:hdu_for_output_from"), (f"{A1}:numpy_array_1d_to_fits", f"{A1}:hdu_for_output_from")):
        f = p.func(wk)
        cs = wire.calls_to(p, f, hk)
        wt = [c for c in f.calls() if isinstance(c.func, ast.Attribute) and c.func.attr == "writeto"]
        ok = len(cs) == 1 and len(wt) == 1
        if ok:
            ok = wire.is_value_of(f, wt[0].func.value, cs[0])   # the HDU written is the one just produced, directly or through a local
            b = {k: norm_text(v) for k, v in wire.kw(cs[0], p.func(hk)).items()}
            ok = ok and b.get("header_dict") == "header_dict" and (b.get("array_2d") == "array_2d" or b.get("array_1d") == "array_1d")
        ctx.ob("C16.flip-unit", wk + ":via-hdu", ok, where=f, node=cs[0] if cs else f.node, construct=norm_text(cs[0])[:100] if cs else "", message="the file writer must write exactly the HDU produced by hdu_for_output_from for its data and header")
        units[wk] = units.get(hk, 0)
    # ---- parity per class / route
    table = [
        ("autoarray.structures.arrays.uniform_2d:Array2D", 1), ("autoarray.mask.mask_2d:Mask2D", 1), ("autoarray.structures.arrays.kernel_2d:Kernel2D", 1),
        ("autoarray.structures.visibilities:Visibilities", 1), ("autoarray.structures.arrays.uniform_1d:Array1D", 0), ("autoarray.mask.mask_1d:Mask1D", 0),
    ]
    n = 0
    for ck, want in table:
        c = p.cls(ck)
        for route, wname, rname in (("file", "output_to_fits", "from_fits"), ("hdu", "hdu_for_output", "from_primary_hdu")):
            w, r = c.lookup(wname), c.lookup(rname)
            if w is None and r is None:
                continue
            cw = count_flips(p, w, units) if w is not None else None
            cr = count_flips(p, r, units) if r is not None else None
            n += 1
            if w is not None and r is not None:
                ctx.ob("C16.parity", f"{ck}:{route}", cw is not None and cw == cr == want, where=r, node=r.node, construct=f"{wname}: {cw} flip(s) [{w.key}]; {rname}: {cr} flip(s) [{r.key}]",
                       message=f"writer and reader of the {route} route must both apply {want} DS9 flip(s) so that the flip on output is undone on input")
            else:
                one, cnt = (w, cw) if w is not None else (r, cr)
                ctx.ob("C16.parity", f"{ck}:{route}", cnt is not None and cnt == want, where=one, node=one.node, construct=f"{one.name}: {cnt} flip(s)", message=f"expected {want} DS9 flip(s)")
    g = p.cls("autoarray.structures.grids.uniform_2d:Grid2D").lookup("from_fits")
    if g is not None:
        cg = count_flips(p, g, units)
        wg = p.cls("autoarray.structures.grids.uniform_2d:Grid2D").lookup("output_to_fits")
        cw = count_flips(p, wg, units) if wg is not None else None
        ctx.ob("C16.parity", "Grid2D:file", cg == 1 and cw == 1, where=g, node=g.node, construct=f"from_fits {cg}; output_to_fits {cw} [{wg.key if wg else None}]", message="Grid2D must be flipped once on write and once on read")
        n += 1
    ctx.require_count("C16.parity", "writer/reader routes", n, 11)
    # ---- sinks
    allowed_hdu = {f"{A2}:hdu_for_output_from", f"{A1}:hdu_for_output_from"}
    allowed_wt = {f"{A2}:numpy_array_2d_to_fits", f"{A1}:numpy_array_1d_to_fits"}
    n_h = n_w = 0
    hdu_funcs = set()
    for f in p.all_functions():
        for c in f.calls():
            t = norm_text(c.func)
            if t.endswith("PrimaryHDU") or t.endswith("ImageHDU"):
                n_h += 1
                hdu_funcs.add(f.key)
                ctx.ob("C16.sinks", f"{f.key}:PrimaryHDU", f.key in allowed_hdu, where=f, node=c, construct=norm_text(c)[:100], message="an HDU is created outside the HDU writer utils (the DS9 flip would be bypassed)")
            if isinstance(c.func, ast.Attribute) and c.func.attr == "writeto":
                n_w += 1
                ctx.ob("C16.sinks", f"{f.key}:writeto", f.key in allowed_wt, where=f, node=c, construct=norm_text(c)[:100], message="a FITS file is written outside the file writer utils")
                ow = wire.kw(c).get("overwrite")
                ctx.ob("C16.overwrite", f"{f.key}:writeto-overwrite", ow is None or (isinstance(ow, ast.Constant) and ow.value is False), where=f, node=c, construct=norm_text(c)[:100], message="writeto must not overwrite by itself: an existing path must fail unless overwrite was requested")
    # every function that constructs an HDU writes the caller's header entries into it (the pixel scale travels in the header)
    for fk in sorted(hdu_funcs):
        hf = p.func(fk)
        if "header_dict" not in hf.all_params:
            continue
        hcalls = [c for c in hf.calls() if norm_text(c.func).endswith(("PrimaryHDU", "ImageHDU"))]
        hdrs = set()
        for c in hcalls:
            b = wire.kw(c)
            h_ = b.get("header", c.args[1] if len(c.args) > 1 else None)
            hdrs.add(norm_text(h_) if h_ is not None else None)
        okh = len(hdrs) == 1 and None not in hdrs
        det = f"header argument(s) {sorted(map(str, hdrs))}"
        if okh:
            H = next(iter(hdrs))
            # (the header may reach the HDU under another name - the result variable of an extracted helper - as long as every value that name receives is the one header object)
            for _ in range(3):
                asg = [n for n in hf.body_nodes() if isinstance(n, ast.Assign) and len(n.targets) == 1 and norm_text(n.targets[0]) == H]
                if asg and all(isinstance(n.value, ast.Name) for n in asg) and len({n.value.id for n in asg}) == 1:
                    H = asg[0].value.id
                else:
                    break
            init = [n for n in hf.body_nodes() if isinstance(n, ast.Assign) and len(n.targets) == 1 and norm_text(n.targets[0]) == H]
            okh = len(init) == 1 and norm_text(init[0].value) in ("fits.Header()", "Header()", "fits.header.Header()")

            def items_iter(it):
                """'plain' for header_dict.items(), 'guarded' for `header_dict.items() if header_dict is not None else ()` (temporaries read through), else None"""
                if isinstance(it, ast.Name):
                    # the conditional expression written as an if / else on the same name (also what N10 makes of it)
                    asg_ = [n for n in hf.body_nodes() if isinstance(n, ast.Assign) and len(n.targets) == 1 and norm_text(n.targets[0]) == it.id]
                    if len(asg_) == 2:
                        br_ = [wire.enclosing_branches(hf, n) for n in asg_]
                        if all(len(b_) == 1 for b_ in br_) and br_[0][0][0] is br_[1][0][0] and br_[0][0][1] != br_[1][0][1]:
                            tst = norm_text(br_[0][0][0].test)
                            pos = {True: None, False: None}
                            for n, b_ in zip(asg_, br_):
                                pos[b_[0][1]] = n.value
                            if tst in ("header_dict is None", "not header_dict"):
                                pos = {True: pos[False], False: pos[True]}
                            elif tst not in ("header_dict is not None", "header_dict"):
                                return None
                            if norm_text(pos[True]) == "header_dict.items()" and isinstance(pos[False], (ast.Tuple, ast.List, ast.Dict)) and not getattr(pos[False], "elts", getattr(pos[False], "keys", [])):
                                return "guarded"
                        return None
                it = wire.inline_locals(hf, it)
                if norm_text(it) == "header_dict.items()":
                    return "plain"
                if isinstance(it, ast.IfExp):
                    t_, a_, b_ = norm_text(it.test), it.body, it.orelse
                    if t_ in ("header_dict is None", "not header_dict"):
                        a_, b_ = b_, a_
                    elif t_ not in ("header_dict is not None", "header_dict"):
                        return None
                    if norm_text(a_) == "header_dict.items()" and isinstance(b_, (ast.Tuple, ast.List, ast.Dict)) and not getattr(b_, "elts", getattr(b_, "keys", [])):
                        return "guarded"
                return None
            loops = [n for n in hf.body_nodes() if isinstance(n, ast.For) and items_iter(n.iter) is not None and isinstance(n.target, (ast.Tuple, ast.List)) and len(n.target.elts) == 2]
            okh = okh and len(loops) == 1
            if okh:
                kx, vx = (norm_text(e) for e in loops[0].target.elts)
                wrote = False
                for n in ast.walk(loops[0]):
                    if isinstance(n, ast.Call) and norm_text(n.func) == f"{H}.append" and n.args and isinstance(n.args[0], (ast.Tuple, ast.List)) and len(n.args[0].elts) >= 2 \
                            and norm_text(n.args[0].elts[0]) == kx and norm_text(n.args[0].elts[1]) == vx and not wire.path_conds(hf, n)[len(wire.path_conds(hf, loops[0])):]:
                        wrote = True
                    if isinstance(n, ast.Call) and norm_text(n.func) == f"{H}.set" and len(n.args) >= 2 and norm_text(n.args[0]) == kx and norm_text(n.args[1]) == vx:
                        wrote = True
                    if isinstance(n, ast.Assign) and len(n.targets) == 1 and norm_text(n.targets[0]) == f"{H}[{kx}]" and norm_text(n.value) == vx:
                        wrote = True
                pcs = wire.path_conds(hf, loops[0])
                guard_ok = pcs in ([], [("header_dict is not None", True)], [("header_dict", True)]) or (len(pcs) == 1 and wire.cond_holds(pcs, "header_dict is not None")) \
                    or (items_iter(loops[0].iter) == "guarded" and not pcs)
                order = {id(n_): k_ for k_, n_ in enumerate(hf.body_nodes())}
                okh = wrote and guard_ok and all(order[id(loops[0])] < order[id(c)] for c in hcalls)
                det = f"loop over header_dict.items() under {pcs}; entry written: {wrote}"
        ctx.ob("C16.header", fk + ":write", okh, where=hf, node=hcalls[0] if hcalls else hf.node, construct=det,
               message="every (key, value) of header_dict must be written into the header that the HDU is built with, whenever a header_dict is given (the pixel scale is read back from it)")
    ctx.require_count("C16.sinks", "functions constructing a PrimaryHDU", len(hdu_funcs), 1)
    ctx.require_count("C16.sinks", "writeto calls", n_w, 2)
    # ---- overwrite / directories
    for wk in allowed_wt:
        f = p.func(wk)
        rm = [c for c in f.calls() if norm_text(c.func) in ("os.remove", "os.unlink")]
        ok = len(rm) == 1
        det = ""
        if ok:
            pcs = [c_ for c_ in wire.path_conds(f, rm[0]) if not (c_[0] in ("file_dir", "not os.path.exists(file_dir)", "os.path.exists(file_dir)") )]   # (the directory guard that precedes is judged below)
            det = str(pcs)
            # exactly the two conditions, however nested or guarded: overwrite requested and the path exists
            ok = sorted(pcs) == sorted([("overwrite", True), ("os.path.exists(file_path)", True)]) and norm_text(rm[0].args[0]) == "file_path"
            wt = [c for c in f.calls() if isinstance(c.func, ast.Attribute) and c.func.attr == "writeto"]
            order = {id(n_): k_ for k_, n_ in enumerate(f.body_nodes())}
            ok = ok and wt and order.get(id(rm[0]), 0) < order.get(id(wt[0]), -1) and norm_text(wt[0].args[0]) == "file_path"
        ctx.ob("C16.overwrite", wk + ":remove", ok, where=f, node=rm[0] if rm else f.node, construct=det, message="the existing file must be removed, before writing, exactly when overwrite is requested and the path exists")
        mk = [c for c in f.calls() if norm_text(c.func) in ("os.makedirs", "os.mkdir")]
        for c in mk:
            arg = norm_text(c.args[0]) if c.args else None
            br = wire.enclosing_branches(f, c)
            guarded = False
            for i, inbody in br:
                t = i.test
                parts = t.values if isinstance(t, ast.BoolOp) and isinstance(t.op, ast.And) else [t]
                if inbody and any(norm_text(x) == arg or norm_text(x) in (f"{arg} != ''", f"len({arg}) > 0", f"bool({arg})") for x in parts):
                    guarded = True
            exist_ok = isinstance(wire.kw(c).get("exist_ok"), ast.Constant) and wire.kw(c).get("exist_ok").value is True
            exists_guard = any(inbody and f"not os.path.exists({arg})" in norm_text(i.test) for i, inbody in br)
            ctx.ob("C16.overwrite", wk + ":makedirs", guarded and (exist_ok or exists_guard), where=f, node=c, construct=f"{norm_text(c)} under {[(norm_text(i.test), t) for i, t in br]}",
                   message="os.makedirs must be reached only for a non-empty directory component (a bare file name gives '') and only when the directory is missing")
        # the directory component is the head of os.path.split / dirname of the path
        src = [norm_text(wire.inline_locals(f, mk[0].args[0], unpack=True))] if mk and mk[0].args else []   # name-free: `d = os.path.split(p)[0]` and `d, _ = os.path.split(p)` alike
        ctx.ob("C16.overwrite", wk + ":dir", bool(mk) and src in (["os.path.split(file_path)[0]"], ["os.path.dirname(file_path)"]), where=f, node=mk[0] if mk else f.node, construct=str(src), message="missing output directories must be created from the directory component of file_path")
    header_rule(ctx, p)
    values_rule(ctx, p)


def can_raise(p, f: FuncInfo, exc_name: str, seen: Set[str], depth: int = 0) -> bool:
    if f.key in seen or depth > 5:
        return False
    seen.add(f.key)
    for n in f.body_nodes():
        if isinstance(n, ast.Raise) and n.exc is not None:
            e = n.exc.func if isinstance(n.exc, ast.Call) else n.exc
            if norm_text(e).split(".")[-1] == exc_name:
                return True
        if isinstance(n, ast.Call):
            for t in p.resolve_call(n, f):
                if can_raise(p, t, exc_name, seen, depth + 1):
                    return True
        if isinstance(n, ast.Attribute):
            for t in p.resolve_attr_read(n, f):
                if can_raise(p, t, exc_name, seen, depth + 1):
                    return True
    return False


def header_rule(ctx, p):
    rule = "C16.header"
    m = p.cls("autoarray.mask.abstract_mask:Mask").lookup("pixel_scale_header")
    if m is None:
        raise AnchorMissing("Mask.pixel_scale_header")
    # keys written on each return
    written: Dict[str, ast.Return] = {}
    for r in wire.returns_of(m):
        if isinstance(r.value, ast.Dict):
            for k in r.value.keys:
                if isinstance(k, ast.Constant):
                    written[k.value] = r
    # dead handlers
    dead_keys = set()
    for n in m.body_nodes():
        if isinstance(n, ast.Try):
            for h in n.handlers:
                en = norm_text(h.type).split(".")[-1] if h.type is not None else None
                reachable = en is None
                if en is not None:
                    for st in n.body:
                        for sub in ast.walk(st):
                            if isinstance(sub, ast.Raise) and sub.exc is not None and norm_text(sub.exc.func if isinstance(sub.exc, ast.Call) else sub.exc).split(".")[-1] == en:
                                reachable = True
                            if isinstance(sub, ast.Call):
                                for t in p.resolve_call(sub, m):
                                    reachable = reachable or can_raise(p, t, en, set())
                            if isinstance(sub, ast.Attribute):
                                for t in p.resolve_attr_read(sub, m):
                                    reachable = reachable or can_raise(p, t, en, set())
                keys_here = {k for k, r in written.items() if any(x is r for st in h.body for x in ast.walk(st))}
                if not reachable:
                    dead_keys |= keys_here
                ctx.ob(rule, f"{m.key}:handler:{en}", reachable, where=m, node=h, construct=f"except {en}: writes {sorted(keys_here)}",
                       message=f"the `except {en}` branch is unreachable (nothing in its try body can raise {en}); the header keys {sorted(keys_here)} for unequal pixel scales are never written, so an anisotropic pixel scale is stored as a single PIXSCALE and cannot round-trip")
    live = set(written) - dead_keys
    # keys consumed by the readers
    consumed: Dict[str, List[str]] = {}
    for f in p.all_functions():
        if f.name != "from_primary_hdu":
            continue
        for n in f.body_nodes():
            if isinstance(n, ast.Subscript) and norm_text(n.value).endswith(".header") and isinstance(n.slice, ast.Constant) and isinstance(n.slice.value, str) and n.slice.value.startswith("PIXSCALE"):
                consumed.setdefault(n.slice.value, []).append(f.key)
    ctx.require_count(rule, "from_primary_hdu readers of a pixel-scale key", sum(len(v) for v in consumed.values()), 5)
    ctx.ob(rule, "keys", live == set(consumed), where=m, node=m.node, construct=f"written on reachable branches {sorted(live)}; read {sorted(consumed)}", message="the header keys written on reachable branches must be exactly the keys the readers consume")
    # every reader passes the header value as pixel_scales
    for k, fs in consumed.items():
        for fk in fs:
            f = p.func(fk)
            rets = wire.returns_of(f)
            ok = len(rets) == 1 and isinstance(rets[0].value, ast.Call) and norm_text(wire.kw(rets[0].value).get("pixel_scales")) == f'primary_hdu.header["{k}"]'.replace('"', "'")
            ok = ok or (len(rets) == 1 and isinstance(rets[0].value, ast.Call) and norm_text(wire.kw(rets[0].value).get("pixel_scales")).replace('"', "'") == f"primary_hdu.header['{k}']")
            ctx.ob(rule, fk + ":pixel-scale", ok, where=f, node=rets[0] if rets else f.node, construct=norm_text(wire.kw(rets[0].value).get("pixel_scales")) if rets and isinstance(rets[0].value, ast.Call) else "", message="the reader must rebuild with the pixel scale stored in the header")
    # structures write the header of their mask
    s = p.cls("autoarray.structures.abstract_structure:Structure").lookup("pixel_scale_header")
    rets = wire.returns_of(s) if s else []
    ctx.ob(rule, "Structure.pixel_scale_header", len(rets) == 1 and norm_text(rets[0].value) == "self.mask.pixel_scale_header", where=s or m, node=rets[0] if rets else None, construct=norm_text(rets[0].value) if rets else "", message="a structure's header must be its mask's pixel-scale header")


def values_rule(ctx, p):
    rule = "C16.values"
    spec = [
        ("autoarray.structures.arrays.uniform_2d:AbstractArray2D", "hdu_for_output", f"{A2}:hdu_for_output_from", {"array_2d": "self.native", "header_dict": "self.pixel_scale_header"}),
        ("autoarray.structures.arrays.uniform_2d:AbstractArray2D", "output_to_fits", f"{A2}:numpy_array_2d_to_fits", {"array_2d": "self.native", "file_path": "file_path", "overwrite": "overwrite", "header_dict": "self.pixel_scale_header"}),
        ("autoarray.mask.mask_2d:Mask2D", "hdu_for_output", f"{A2}:hdu_for_output_from", {"array_2d": "self.astype(dtype='float')", "header_dict": "self.pixel_scale_header"}),
        ("autoarray.mask.mask_2d:Mask2D", "output_to_fits", f"{A2}:numpy_array_2d_to_fits", {"array_2d": "self.astype(dtype='float')", "file_path": "file_path", "overwrite": "overwrite", "header_dict": "self.pixel_scale_header"}),
        ("autoarray.structures.arrays.uniform_1d:Array1D", "hdu_for_output", f"{A1}:hdu_for_output_from", {"array_1d": "self.native", "header_dict": "self.pixel_scale_header"}),
        ("autoarray.structures.arrays.uniform_1d:Array1D", "output_to_fits", f"{A1}:numpy_array_1d_to_fits", {"array_1d": "self.native", "file_path": "file_path", "overwrite": "overwrite", "header_dict": "self.pixel_scale_header"}),
        ("autoarray.mask.mask_1d:Mask1D", "hdu_for_output", f"{A1}:hdu_for_output_from", {"array_1d": "self.astype(dtype='float')", "header_dict": "self.pixel_scale_header"}),
        ("autoarray.mask.mask_1d:Mask1D", "output_to_fits", f"{A1}:numpy_array_1d_to_fits", {"array_1d": "self.astype(dtype='float')", "file_path": "file_path", "overwrite": "overwrite", "header_dict": "self.pixel_scale_header"}),
    ]
    for ck, meth, util, want in spec:
        m = p.cls(ck).lookup(meth)
        if m is None:
            raise AnchorMissing(f"{ck}.{meth}")
        callee = p.func(util)
        cs = wire.calls_to(p, m, util)
        got = {k: norm_text(wire.strip_np_array(v)).replace('"', "'") for k, v in wire.kw(cs[0], callee).items()} if len(cs) == 1 else {}
        ctx.ob(rule, f"{ck}.{meth}", got == want, where=m, node=cs[0] if cs else m.node, construct=str(got), message=f"expected {want}")
    # mask readers convert to booleans; array readers to floats
    for ck, meth, conv in (("autoarray.mask.mask_1d:Mask1D", "from_primary_hdu", "bool"), ("autoarray.mask.mask_2d:Mask2D", "from_primary_hdu", "float"),
                           ("autoarray.structures.arrays.uniform_2d:Array2D", "from_primary_hdu", "float"), ("autoarray.structures.arrays.uniform_1d:Array1D", "from_primary_hdu", "float")):
        m = p.cls(ck).lookup(meth)
        rets = wire.returns_of(m)
        kwv = wire.kw(rets[0].value) if rets and isinstance(rets[0].value, ast.Call) else {}
        v = kwv.get("mask") or kwv.get("values")
        txt = norm_text(v).replace('"', "'") if v is not None else ""
        ctx.ob(rule, f"{ck}.{meth}:data", f"primary_hdu.data.astype('{conv}')" in txt, where=m, node=rets[0] if rets else m.node, construct=txt, message=f"the HDU data must be converted with astype('{conv}') and handed to the constructor")
    # Mask base class stores booleans whatever it is given
    mi = p.cls("autoarray.mask.abstract_mask:Mask").lookup("__init__")
    if mi is None:
        raise AnchorMissing("Mask.__init__")
    txt = " ".join(norm_text(n) for n in mi.body_nodes() if isinstance(n, ast.Call))
    ctx.ob(rule, "Mask.__init__:bool", "astype('bool')" in txt.replace('"', "'") or "astype(bool)" in txt, where=mi, node=mi.node, construct="", message="a mask read back as floats must be converted to booleans by the Mask constructor")


_A2 = "autoarray/structures/arrays/array_2d_util.py"
_A1 = "autoarray/structures/arrays/array_1d_util.py"
CONTROLS = [
    Control("reader flips under `not flip`", _A2, in_func("numpy_array_2d_via_fits_from", "    if flip_for_ds9:\n        return np.flipud(np.array(hdu_list[hdu].data)).astype(\"float64\")", "    if not flip_for_ds9:\n        return np.flipud(np.array(hdu_list[hdu].data)).astype(\"float64\")"), "C16.flip-unit"),
    Control("Mask2D.from_primary_hdu forgets the flip (seed C16/1)", "autoarray/mask/mask_2d.py", in_func("Mask2D.from_primary_hdu", "mask=cls.flip_hdu_for_ds9(primary_hdu.data.astype(\"float\")),", "mask=primary_hdu.data.astype(\"bool\"),"), "C16.parity"),
    Control("Array1D HDU writer uses the 2-D (flipping) util again", "autoarray/structures/arrays/uniform_1d.py", in_func("Array1D.hdu_for_output", "return array_1d_util.hdu_for_output_from(\n            array_1d=np.array(self.native), header_dict=self.pixel_scale_header\n        )", "return array_2d_util.hdu_for_output_from(\n            array_2d=self.native, header_dict=self.pixel_scale_header\n        )"), "C16.parity"),
    Control("makedirs without the empty-dirname guard (seed C16/2)", _A2, in_func("numpy_array_2d_to_fits", "    if file_dir and not os.path.exists(file_dir):\n        os.makedirs(file_dir)", "    os.makedirs(file_dir, exist_ok=True)"), "C16.overwrite"),
    Control("existing file removed even without overwrite", _A1, in_func("numpy_array_1d_to_fits", "if overwrite and os.path.exists(file_path):", "if os.path.exists(file_path):"), "C16.overwrite"),
    Control("writeto(overwrite=True)", _A2, in_func("numpy_array_2d_to_fits", "hdu.writeto(file_path)", "hdu.writeto(file_path, overwrite=True)"), "C16.overwrite"),
    Control("reader consumes PIXSCAL", "autoarray/structures/arrays/kernel_2d.py", in_func("Kernel2D.from_primary_hdu", "primary_hdu.header[\"PIXSCALE\"]", "primary_hdu.header[\"PIXSCAL\"]"), "C16.header"),
    Control("mask written as bool-cast ints via slim", "autoarray/mask/mask_2d.py", in_func("Mask2D.output_to_fits", "array_2d=self.astype(\"float\"),", "array_2d=np.invert(self).astype(\"float\"),"), "C16.values"),
    Control("header loop under the negated guard", _A2, in_func("hdu_for_output_from", "    if header_dict is not None:\n        for key, value in header_dict.items():", "    if header_dict is None:\n        for key, value in header_dict.items():"), "C16.header"),
    Control("header written as (value, key)", _A2, in_func("hdu_for_output_from", "header.append((key, value, [\"\"]))", "header.append((value, key, [\"\"]))"), "C16.header"),
    Control("twin: header written by item assignment", _A2, in_func("hdu_for_output_from", "header.append((key, value, [\"\"]))", "header[key] = value"), None, twin=True),
    Control("twin: dirname instead of split()[0]", _A2, in_func("numpy_array_2d_to_fits", "file_dir = os.path.split(file_path)[0]", "file_dir = os.path.dirname(file_path)"), None, twin=True),
]
