"""E1 - project model and resolver.

Parses every module under <repo>/autoarray (except plot/ directories) with the standard
library `ast` and offers:
  * module / function / class tables, decorators, MRO
  * import alias resolution (module level and function-local imports)
  * call resolution for the idioms the repository uses
  * keyword binding of call arguments to callee parameters
Nothing under the repository is imported or executed.
"""
from __future__ import annotations

import ast
from .canon import canonicalise, restore_local_names
import os
import warnings
from typing import Dict, List, Optional, Tuple, Iterable

REPO = os.environ.get("VERIF_REPO", "/repo")
PKG = "autoarray"


class AnchorMissing(Exception):
    """An anchor named by a rule's instance table no longer exists (exit 2)."""


class AnalysisError(Exception):
    """The checker cannot decide an obligation it must be able to decide (exit 2)."""


def dec_name(d: ast.expr) -> str:
    if isinstance(d, ast.Call):
        d = d.func
    try:
        return ast.unparse(d)
    except Exception:  # pragma: no cover
        return "?"


class FuncInfo:
    def __init__(self, module: "ModuleInfo", node: ast.FunctionDef, cls: Optional["ClassInfo"], parent: Optional["FuncInfo"] = None):
        self.module = module
        self.node = node
        self.cls = cls
        self.parent = parent
        self.name = node.name
        self.decorators = [dec_name(d) for d in node.decorator_list]
        a = node.args
        self.posonly = [x.arg for x in a.posonlyargs]
        self.params = [x.arg for x in a.posonlyargs + a.args]
        self.kwonly = [x.arg for x in a.kwonlyargs]
        self.vararg = a.vararg.arg if a.vararg else None
        self.kwarg = a.kwarg.arg if a.kwarg else None
        self.defaults: Dict[str, ast.expr] = {}
        pos = a.posonlyargs + a.args
        for p, d in zip(pos[len(pos) - len(a.defaults):], a.defaults):
            self.defaults[p.arg] = d
        for p, d in zip(a.kwonlyargs, a.kw_defaults):
            if d is not None:
                self.defaults[p.arg] = d
        self.annotations: Dict[str, ast.expr] = {x.arg: x.annotation for x in pos + a.kwonlyargs if x.annotation is not None}

    # ---- decorator kinds
    def _has(self, *names):
        return any(d.split(".")[-1] in names for d in self.decorators)

    @property
    def is_jit(self):
        return self._has("jit")

    @property
    def is_property(self):
        return self._has("property")

    @property
    def is_cached(self):
        return self._has("cached_property")

    @property
    def is_classmethod(self):
        return self._has("classmethod")

    @property
    def is_staticmethod(self):
        return self._has("staticmethod")

    @property
    def qualname(self) -> str:
        if self.parent is not None:
            return self.parent.qualname + ".<locals>." + self.name
        if self.cls is not None:
            return self.cls.name + "." + self.name
        return self.name

    @property
    def key(self) -> str:
        return self.module.name + ":" + self.qualname

    @property
    def all_params(self) -> List[str]:
        return self.params + self.kwonly

    @property
    def call_params(self) -> List[str]:
        """Positional parameters as seen by a caller (self / cls stripped for bound calls)."""
        if self.cls is not None and not self.is_staticmethod and self.params:
            return self.params[1:]
        return list(self.params)

    def where(self, node: Optional[ast.AST] = None) -> str:
        ln = getattr(node, "lineno", None) or self.node.lineno
        return f"{self.module.relpath}:{ln}"

    def body_nodes(self) -> Iterable[ast.AST]:
        """All nodes in the body, not descending into nested function / class definitions."""
        stack = [n for n in reversed(self.node.body) if not isinstance(n, (ast.FunctionDef, ast.AsyncFunctionDef, ast.ClassDef))]
        while stack:
            n = stack.pop()
            yield n
            for c in ast.iter_child_nodes(n):
                if isinstance(c, (ast.FunctionDef, ast.AsyncFunctionDef, ast.ClassDef, ast.Lambda)):
                    continue
                stack.append(c)

    def calls(self) -> List[ast.Call]:
        return [n for n in self.body_nodes() if isinstance(n, ast.Call)]

    def __repr__(self):
        return f"<Func {self.key}>"


class ClassInfo:
    def __init__(self, module: "ModuleInfo", node: ast.ClassDef):
        self.module = module
        self.node = node
        self.name = node.name
        self.methods: Dict[str, FuncInfo] = {}
        self.class_attrs: Dict[str, ast.expr] = {}
        self.base_exprs = node.bases
        self.bases: List["ClassInfo"] = []  # resolved project bases
        self.unresolved_bases: List[str] = []
        self.subclasses: List["ClassInfo"] = []

    @property
    def key(self):
        return self.module.name + ":" + self.name

    def mro(self) -> List["ClassInfo"]:
        # C3 is not needed for the repo's hierarchies; depth-first left-to-right with de-duplication (last occurrence kept)
        out: List[ClassInfo] = []

        def visit(c):
            res = [c]
            for b in c.bases:
                res.extend(visit(b))
            return res

        seq = visit(self)
        seen = set()
        # keep the last occurrence of duplicates to approximate C3 for diamonds
        for c in reversed(seq):
            if c.key not in seen:
                seen.add(c.key)
                out.append(c)
        out.reverse()
        # but self must be first
        return out

    def lookup(self, name: str, skip_self: bool = False) -> Optional[FuncInfo]:
        for c in self.mro()[1 if skip_self else 0:]:
            if name in c.methods:
                return c.methods[name]
        return None

    def all_subclasses(self) -> List["ClassInfo"]:
        out, stack, seen = [], list(self.subclasses), set()
        while stack:
            c = stack.pop()
            if c.key in seen:
                continue
            seen.add(c.key)
            out.append(c)
            stack.extend(c.subclasses)
        return out

    def is_subclass_of(self, other: "ClassInfo") -> bool:
        return any(c.key == other.key for c in self.mro())

    def cached_names(self) -> set:
        return {n for c in self.mro() for n, f in c.methods.items() if f.is_cached}

    def __repr__(self):
        return f"<Class {self.key}>"


CALL_CTX: Dict[int, tuple] = {}   # id(Call node) -> (Project, FuncInfo of the innermost enclosing function)


class ModuleInfo:
    def __init__(self, name: str, path: str, relpath: str, src: str):
        self.name = name
        self.path = path
        self.relpath = relpath
        self.src = src
        with warnings.catch_warnings():
            warnings.simplefilter("ignore")
            self.tree = canonicalise(ast.parse(src, filename=relpath), relpath)
        self.functions: Dict[str, FuncInfo] = {}
        self.classes: Dict[str, ClassInfo] = {}
        self.imports: Dict[str, str] = {}  # local alias -> dotted target
        self.is_package = relpath.endswith("__init__.py")
        self.all_funcs: List[FuncInfo] = []

    def __repr__(self):
        return f"<Module {self.name}>"


def _collect_imports(stmts: Iterable[ast.stmt], modname: str, is_package: bool) -> Dict[str, str]:
    out: Dict[str, str] = {}
    for st in stmts:
        if isinstance(st, ast.Import):
            for a in st.names:
                if a.asname:
                    out[a.asname] = a.name
                else:
                    out[a.name.split(".")[0]] = a.name.split(".")[0]
        elif isinstance(st, ast.ImportFrom):
            base = st.module or ""
            if st.level:
                parts = modname.split(".")
                if not is_package:
                    parts = parts[:-1]
                parts = parts[: len(parts) - (st.level - 1)] if st.level > 1 else parts
                base = ".".join(parts + ([st.module] if st.module else []))
            for a in st.names:
                out[a.asname or a.name] = base + "." + a.name
    return out


class Project:
    def __init__(self, root: str = REPO, overrides: Optional[Dict[str, str]] = None, include_plot: bool = False):
        CALL_CTX.clear()   # ids of the nodes of an earlier (dead) project must not be mistaken for nodes of this one; one project is alive at a time
        self.root = root
        self.modules: Dict[str, ModuleInfo] = {}
        self.by_relpath: Dict[str, ModuleInfo] = {}
        self.parse_errors: List[str] = []
        overrides = overrides or {}
        pkgdir = os.path.join(root, PKG)
        for dp, dns, fns in os.walk(pkgdir):
            dns.sort()
            rel_dir = os.path.relpath(dp, root)
            if not include_plot and "plot" in rel_dir.split(os.sep):
                dns[:] = []
                continue
            for fn in sorted(fns):
                if not fn.endswith(".py"):
                    continue
                path = os.path.join(dp, fn)
                rel = os.path.relpath(path, root)
                if rel in overrides:
                    src = overrides[rel]
                else:
                    with open(path, encoding="utf-8", newline=None) as fh:
                        src = fh.read()
                name = rel[:-3].replace(os.sep, ".")
                if name.endswith(".__init__"):
                    name = name[: -len(".__init__")]
                try:
                    m = ModuleInfo(name, path, rel, src)
                except SyntaxError as e:
                    self.parse_errors.append(f"{rel}: {e}")
                    continue
                self.modules[name] = m
                self.by_relpath[rel] = m
        for m in self.modules.values():
            self._index(m)
        for m in self.modules.values():
            for c in m.classes.values():
                self._resolve_bases(c)
        self._func_by_node: Dict[int, FuncInfo] = {}
        for m in self.modules.values():
            for f in m.all_funcs:
                self._func_by_node[id(f.node)] = f
        self.inlined_helpers = 0
        try:
            from .canon import reference_table
            from .inline import inline_new_helpers, inline_new_closures
            ref = reference_table()
            if ref:
                before = {name: ast.dump(m.tree) for name, m in self.modules.items()} if ref else {}
                self.inlined_helpers = inline_new_helpers(self, ref)
                self.inlined_helpers += inline_new_closures(self, ref)
                if self.inlined_helpers:
                    # a caller that got a helper spliced back is canonicalised again (its function objects stay the same): aliases introduced by the splice are
                    # propagated, early returns turned into if / else are hoisted, and - when what results is the reference body up to the names of locals - the
                    # reference names come back (N5), so that a pure "extract method" leaves nothing behind
                    for name, m in self.modules.items():
                        if before.get(name) != ast.dump(m.tree):
                            m.tree = canonicalise(m.tree, m.relpath)
        except Exception as e:  # pragma: no cover - inlining is an aid, never a reason to fail
            self.parse_errors.append(f"helper inlining skipped: {e!r}")
        self._keywordise_calls()
        # every call knows the (innermost) function it sits in, so that accessors can look through single-use temporaries (wire.kw)
        for m in self.modules.values():
            for f in sorted(m.all_funcs, key=lambda x: x.node.lineno):
                for n in ast.walk(f.node):
                    if isinstance(n, ast.Call):
                        CALL_CTX[id(n)] = (self, f)   # side table, not an attribute: copies of AST nodes must stay cheap; later (inner) functions overwrite the outer one

    def _keywordise_calls(self):
        """N8: f(x, y) -> f(a=x, b=y) wherever the callee resolves to project functions that agree on the names of the parameters the positional arguments bind to
        (so that a rule sees the same call whether its arguments were written positionally or by keyword).  Calls with *args, and callees that cannot take the
        argument by keyword, are left as written."""
        self.keywordised = 0
        for m in self.modules.values():
            for f in m.all_funcs:
                for c in f.calls():
                    if not c.args or any(isinstance(a, ast.Starred) for a in c.args) or any(k.arg is None for k in c.keywords):
                        continue
                    try:
                        tg = self.resolve_call(c, f)
                    except Exception:
                        tg = []
                    if not tg:
                        continue
                    names = set()
                    ok = True
                    for t in tg:
                        cp = t.call_params
                        posonly = {a.arg for a in t.node.args.posonlyargs}
                        if len(cp) < len(c.args) or any(nm in posonly for nm in cp[:len(c.args)]):
                            ok = False
                            break
                        names.add(tuple(cp[:len(c.args)]))
                    if not ok or len(names) != 1:
                        continue
                    nm = next(iter(names))
                    if any(k.arg in nm for k in c.keywords):
                        continue
                    c.keywords = [ast.keyword(arg=a, value=v) for a, v in zip(nm, c.args)] + list(c.keywords)
                    c.args = []
                    self.keywordised += 1

    # ------------------------------------------------------------------ indexing
    def _index(self, m: ModuleInfo):
        m.imports = _collect_imports(m.tree.body, m.name, m.is_package)
        # imports nested in try/if at module level
        for st in m.tree.body:
            if isinstance(st, (ast.Try, ast.If)):
                for sub in ast.walk(st):
                    if isinstance(sub, (ast.Import, ast.ImportFrom)):
                        m.imports.update(_collect_imports([sub], m.name, m.is_package))

        def add_func(node, cls, parent):
            f = FuncInfo(m, node, cls, parent)
            m.all_funcs.append(f)
            for sub in ast.walk(node):
                pass
            # nested defs
            stack = list(node.body)
            while stack:
                n = stack.pop()
                if isinstance(n, ast.FunctionDef):
                    add_func(n, None, f)
                    continue
                if isinstance(n, (ast.ClassDef, ast.Lambda)):
                    continue
                stack.extend(ast.iter_child_nodes(n))
            return f

        for st in m.tree.body:
            if isinstance(st, ast.FunctionDef):
                m.functions[st.name] = add_func(st, None, None)
            elif isinstance(st, ast.ClassDef):
                c = ClassInfo(m, st)
                m.classes[st.name] = c
                for b in st.body:
                    if isinstance(b, ast.FunctionDef):
                        fi = add_func(b, c, None)
                        # property setters etc: keep the first getter definition
                        if b.name in c.methods and any(d.endswith(".setter") for d in fi.decorators):
                            continue
                        c.methods[b.name] = fi
                    elif isinstance(b, ast.Assign):
                        for t in b.targets:
                            if isinstance(t, ast.Name):
                                c.class_attrs[t.id] = b.value
            elif isinstance(st, (ast.Try, ast.If)):
                for sub in ast.iter_child_nodes(st):
                    pass

    def _resolve_bases(self, c: ClassInfo):
        for b in c.base_exprs:
            t = self.resolve_expr(b, c.module, None)
            if t and t[0] == "class":
                c.bases.append(t[1])
                t[1].subclasses.append(c)
            else:
                c.unresolved_bases.append(ast.unparse(b))

    # ------------------------------------------------------------------ lookup by key
    def module(self, name: str) -> ModuleInfo:
        if name not in self.modules:
            raise AnchorMissing(f"module {name}")
        return self.modules[name]

    def func(self, key: str) -> FuncInfo:
        """key = 'pkg.mod:func' or 'pkg.mod:Class.method'."""
        mod, _, qn = key.partition(":")
        m = self.module(mod)
        if "." in qn:
            cn, fn = qn.split(".", 1)
            c = m.classes.get(cn)
            if c is None or fn not in c.methods:
                raise AnchorMissing(f"function {key}")
            return c.methods[fn]
        if qn not in m.functions:
            raise AnchorMissing(f"function {key}")
        return m.functions[qn]

    def cls(self, key: str) -> ClassInfo:
        mod, _, cn = key.partition(":")
        m = self.module(mod)
        if cn not in m.classes:
            raise AnchorMissing(f"class {key}")
        return m.classes[cn]

    def has_func(self, key: str) -> bool:
        try:
            self.func(key)
            return True
        except AnchorMissing:
            return False

    def all_functions(self) -> List[FuncInfo]:
        """every function of the project except new helpers that were completely spliced back into their callers (N11): those are judged where their code now stands"""
        gone = getattr(self, "inlined_keys", None) or ()
        return [f for m in self.modules.values() for f in m.all_funcs if f.key not in gone]

    def all_classes(self) -> List[ClassInfo]:
        return [c for m in self.modules.values() for c in m.classes.values()]

    def func_of_node(self, node) -> Optional[FuncInfo]:
        return self._func_by_node.get(id(node))

    # ------------------------------------------------------------------ name resolution
    def _resolve_dotted(self, dotted: str, depth: int = 0):
        """dotted path -> ('module', m) | ('func', f) | ('class', c) | ('external', dotted) | None"""
        if depth > 6:
            return None
        if dotted in self.modules:
            return ("module", self.modules[dotted])
        if not dotted.startswith(PKG):
            return ("external", dotted)
        head, _, last = dotted.rpartition(".")
        if head in self.modules:
            m = self.modules[head]
            if last in m.functions:
                return ("func", m.functions[last])
            if last in m.classes:
                return ("class", m.classes[last])
            if last in m.imports:
                return self._resolve_dotted(m.imports[last], depth + 1)
            return None
        # head itself may be a symbol (class) and last an attribute
        t = self._resolve_dotted(head, depth + 1) if head else None
        if t and t[0] == "class":
            f = t[1].lookup(last)
            if f:
                return ("func", f)
        if t and t[0] == "module":
            return self._resolve_dotted(t[1].name + "." + last, depth + 1)
        return None

    def local_imports(self, f: Optional[FuncInfo]) -> Dict[str, str]:
        if f is None:
            return {}
        cache = getattr(f, "_local_imports", None)
        if cache is None:
            stmts = [n for n in f.body_nodes() if isinstance(n, (ast.Import, ast.ImportFrom))]
            cache = _collect_imports(stmts, f.module.name, f.module.is_package)
            if f.parent is not None:
                up = dict(self.local_imports(f.parent))
                up.update(cache)
                cache = up
            f._local_imports = cache
        return cache

    def resolve_name(self, name: str, module: ModuleInfo, f: Optional[FuncInfo]):
        li = self.local_imports(f)
        if name in li:
            return self._resolve_dotted(li[name])
        if name in module.functions:
            return ("func", module.functions[name])
        if name in module.classes:
            return ("class", module.classes[name])
        if name in module.imports:
            return self._resolve_dotted(module.imports[name])
        return None

    def resolve_expr(self, e: ast.expr, module: ModuleInfo, f: Optional[FuncInfo]):
        """Resolve a Name / dotted Attribute chain used as a static reference (module, class, function)."""
        if isinstance(e, ast.Name):
            return self.resolve_name(e.id, module, f)
        if isinstance(e, ast.Attribute):
            base = self.resolve_expr(e.value, module, f)
            if base is None:
                return None
            if base[0] == "module":
                return self._resolve_dotted(base[1].name + "." + e.attr)
            if base[0] == "class":
                fn = base[1].lookup(e.attr)
                if fn:
                    return ("func", fn)
                return None
            if base[0] == "external":
                return ("external", base[1] + "." + e.attr)
        if isinstance(e, ast.Constant) and isinstance(e.value, str):
            # forward-reference annotations "Mask2D"
            try:
                sub = ast.parse(e.value, mode="eval").body
            except SyntaxError:
                return None
            return self.resolve_expr(sub, module, f)
        return None

    # ------------------------------------------------------------------ light type inference
    def annotation_class(self, ann: Optional[ast.expr], module: ModuleInfo, f: Optional[FuncInfo]) -> Optional[ClassInfo]:
        if ann is None:
            return None
        if isinstance(ann, ast.Subscript):  # Optional[X] / Union[X, Y] -> first project class
            base = ast.unparse(ann.value).split(".")[-1]
            if base in ("Optional", "Union"):
                elts = ann.slice.elts if isinstance(ann.slice, ast.Tuple) else [ann.slice]
                for el in elts:
                    c = self.annotation_class(el, module, f)
                    if c:
                        return c
            return None
        t = self.resolve_expr(ann, module, f)
        if t and t[0] == "class":
            return t[1]
        return None

    def self_attr_type(self, cls: ClassInfo, attr: str, _depth: int = 0) -> Optional[ClassInfo]:
        """Type of self.<attr>: property return annotation, or __init__ assignment from an annotated parameter / constructor."""
        if _depth > 4:
            return None
        m = cls.lookup(attr)
        if m is not None and (m.is_property or m.is_cached):
            c = self.annotation_class(m.node.returns, m.module, m)
            if c:
                return c
            # property body `return X(...)`/`return self.y`
            for n in m.body_nodes():
                if isinstance(n, ast.Return) and n.value is not None:
                    return self.type_of(n.value, m, _depth + 1)
            return None
        for c in cls.mro():
            init = c.methods.get("__init__")
            if init is None:
                continue
            for n in init.body_nodes():
                if isinstance(n, ast.Assign):
                    for t in n.targets:
                        if isinstance(t, ast.Attribute) and isinstance(t.value, ast.Name) and t.value.id == "self" and t.attr == attr:
                            ty = self.type_of(n.value, init, _depth + 1)
                            if ty:
                                return ty
        return None

    def type_of(self, e: ast.expr, f: FuncInfo, _depth: int = 0) -> Optional[ClassInfo]:
        if _depth > 6:
            return None
        key = (id(e), id(f))
        memo = self.__dict__.setdefault("_type_memo", {})
        if key in memo:
            return memo[key]
        busy = self.__dict__.setdefault("_type_busy", set())
        if key in busy:
            return None
        busy.add(key)
        try:
            r = self._type_of(e, f, _depth)
        finally:
            busy.discard(key)
        if _depth == 0:
            memo[key] = r
        return r

    def _type_of(self, e: ast.expr, f: FuncInfo, _depth: int = 0) -> Optional[ClassInfo]:
        if isinstance(e, ast.Name):
            if e.id == "self" and f.cls is not None and not f.is_staticmethod and not f.is_classmethod:
                return f.cls
            if e.id in f.annotations:
                c = self.annotation_class(f.annotations[e.id], f.module, f)
                if c:
                    return c
            # single local assignment
            asg = [n for n in f.body_nodes() if isinstance(n, ast.Assign) and any(isinstance(t, ast.Name) and t.id == e.id for t in n.targets)]
            if len(asg) >= 1 and e.id not in f.all_params:
                tys = [self.type_of(a.value, f, _depth + 1) for a in asg]
                tys = [t for t in tys if t is not None]
                if tys and all(t.key == tys[0].key for t in tys) and len(tys) == len(asg):
                    return tys[0]
            return None
        if isinstance(e, ast.Attribute):
            bt = self.type_of(e.value, f, _depth + 1)
            if bt is not None:
                return self.self_attr_type(bt, e.attr, _depth + 1)
            return None
        if isinstance(e, ast.Call):
            tgt = self.resolve_call(e, f, _depth + 1)
            if tgt:
                t0 = tgt[0]
                if isinstance(t0, ClassInfo):
                    return t0
                if t0.name == "__init__" and t0.cls is not None:
                    # constructor call: the class named at the call site
                    r = self.resolve_expr(e.func, f.module, f)
                    if r and r[0] == "class":
                        return r[1]
                    if isinstance(e.func, ast.Name) and e.func.id == "cls" and f.cls:
                        return f.cls
                    return t0.cls
                c = self.annotation_class(t0.node.returns, t0.module, t0)
                if c:
                    return c
                if t0.is_classmethod and t0.cls is not None:
                    # classmethod constructors: `return cls(...)` / `return ClassName(...)`
                    r = self.resolve_expr(e.func.value, f.module, f) if isinstance(e.func, ast.Attribute) else None
                    if r and r[0] == "class":
                        return r[1]
            return None
        return None

    # ------------------------------------------------------------------ call resolution
    def resolve_call(self, call: ast.Call, f: FuncInfo, _depth: int = 0) -> List[FuncInfo]:
        """Return the possible project callees of a call ([] if unresolved / external).
        A constructor call resolves to the class's __init__ (through the MRO)."""
        fn = call.func
        m = f.module
        # plain name / dotted static reference
        t = None
        if isinstance(fn, ast.Name):
            if fn.id == "cls" and f.cls is not None and f.is_classmethod:
                init = f.cls.lookup("__init__")
                return [init] if init else []
            if fn.id in {a for a in f.all_params} and fn.id not in ("cls",):
                return []
            t = self.resolve_name(fn.id, m, f)
        elif isinstance(fn, ast.Attribute):
            v = fn.value
            # super().m(...)
            if isinstance(v, ast.Call) and isinstance(v.func, ast.Name) and v.func.id == "super" and f.cls is not None:
                r = f.cls.lookup(fn.attr, skip_self=True)
                return [r] if r else []
            if isinstance(v, ast.Name) and v.id == "cls" and f.cls is not None and f.is_classmethod:
                r = f.cls.lookup(fn.attr)
                return [r] if r else []
            t = self.resolve_expr(fn, m, f)
            if t is None:
                ty = self.type_of(v, f, _depth + 1)
                if ty is not None:
                    r = ty.lookup(fn.attr)
                    if r is not None:
                        out = [r]
                        for sc in ty.all_subclasses():
                            if fn.attr in sc.methods and sc.methods[fn.attr] not in out:
                                out.append(sc.methods[fn.attr])
                        return out
                return []
        if t is None:
            return []
        if t[0] == "func":
            return [t[1]]
        if t[0] == "class":
            init = t[1].lookup("__init__")
            return [init] if init else []
        return []

    def resolve_attr_read(self, e: ast.Attribute, f: FuncInfo) -> List[FuncInfo]:
        """Property getters that an attribute read may invoke."""
        ty = self.type_of(e.value, f)
        if ty is None:
            return []
        r = ty.lookup(e.attr)
        if r is not None and (r.is_property or r.is_cached):
            out = [r]
            for sc in ty.all_subclasses():
                if e.attr in sc.methods and sc.methods[e.attr] not in out:
                    out.append(sc.methods[e.attr])
            return out
        return []

    # ------------------------------------------------------------------ keyword binding
    @staticmethod
    def bind(call: ast.Call, callee: FuncInfo) -> Tuple[Dict[str, ast.expr], bool]:
        """Normalise a call to {param -> argument expression}. Returns (binding, complete)."""
        params = callee.call_params
        if callee.name == "__init__" and callee.cls is not None and callee.params and callee.params[0] == "self":
            params = callee.params[1:]
        out: Dict[str, ast.expr] = {}
        complete = True
        for i, a in enumerate(call.args):
            if isinstance(a, ast.Starred):
                complete = False
                continue
            if i < len(params):
                out[params[i]] = a
            else:
                complete = complete and callee.vararg is not None
        for k in call.keywords:
            if k.arg is None:
                complete = False
            else:
                out[k.arg] = k.value
        return out, complete


def unparse(n) -> str:
    try:
        return ast.unparse(n)
    except Exception:  # pragma: no cover
        return "<?>"


class _CanonUnparser(ast._Unparser):
    """ast.unparse with two spellings canonicalised, so that rules comparing normalised text do not depend on them:
    `a > b` is written `b < a` (`>=` likewise), and the keyword arguments of a call are written in alphabetical order."""

    def visit_Compare(self, node):
        if len(node.ops) == 1 and isinstance(node.ops[0], (ast.Gt, ast.GtE)):
            node = ast.Compare(left=node.comparators[0], ops=[ast.Lt() if isinstance(node.ops[0], ast.Gt) else ast.LtE()], comparators=[node.left])
        super().visit_Compare(node)

    def visit_Call(self, node):
        if len(node.keywords) > 1 and all(k.arg is not None for k in node.keywords):
            node = ast.Call(func=node.func, args=node.args, keywords=sorted(node.keywords, key=lambda k: k.arg))
        super().visit_Call(node)


def canon_unparse(n) -> str:
    try:
        return _CanonUnparser().visit(n)
    except Exception:  # pragma: no cover
        return unparse(n)


def canon_src(src: str, limit: int = 160) -> str:
    """the canonical normalised text of a source fragment written by hand in a rule (expression or statement)"""
    tree = canonicalise(ast.parse(src.strip()))
    node = tree.body[0]
    return norm_text(node.value if isinstance(node, ast.Expr) else node, limit)


def norm_text(n, limit: int = 100000) -> str:
    """Normalised text of a construct for finding keys and rule comparisons (whitespace-insensitive, no positions, canonical comparison orientation and keyword order)."""
    s = canon_unparse(n) if not isinstance(n, str) else n
    s = " ".join(s.split())
    return s[:limit]
