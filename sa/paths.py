"""PATHS - name-free path summaries of object-level (wiring) functions.

A rule about wiring code ("the value returned is the solver's result", "the reduced system is built with one selector") should not depend on how many temporaries the
function uses, in which order independent statements stand, or whether the alternative is an `else`, a guard clause or a conditional expression.  This module walks
every path through a function body and forward-substitutes the locals, so that what a rule sees is, per path,

    conds    the conditions that hold along it [(text, truth)], with conjunctions / failed disjunctions split and locals substituted,
    kind     'return' | 'raise' | 'fall'
    value    the returned expression as an AST in which every local has been replaced by the expression it holds on that path,
    effects  calls made for their effect and attribute stores, substituted the same way, in order.

Element stores are functional updates:  `a = np.zeros(n); a[sel] = v; return a`  returns  `__store__(np.zeros(n), sel, v)`.
In-place method calls on a local (`l.append(x)`) are  `__mut__(l, 'append', x)`.
A loop is not unrolled: every name it binds or writes into becomes `__loop__(<iterable>, <value before>, '<name>')` and the loop body is available separately.
Nothing is executed; the walk is purely syntactic and bounded (`limit` paths), returning None when the bound is hit so that the caller reports `undecided`.
"""
from __future__ import annotations

import ast
import copy
from typing import Dict, List, Optional, Tuple

from .model import FuncInfo, norm_text

_MUTATORS = {"append", "extend", "insert", "remove", "pop", "sort", "reverse", "update", "add", "clear", "fill", "setdefault"}


class Path:
    def __init__(self, conds, kind, value, effects, env, node):
        self.conds: List[Tuple[str, bool]] = conds
        self.kind: str = kind
        self.value: Optional[ast.expr] = value
        self.effects: List[ast.expr] = effects
        self.env: Dict[str, ast.expr] = env
        self.node = node

    @property
    def text(self) -> str:
        return ptext(self.value) if self.value is not None else ""

    def holds(self, src: str) -> Optional[bool]:
        """truth of the atomic condition `src` on this path (None: the path does not decide it)"""
        from . import wire
        if wire.cond_holds(self.conds, src):
            return True
        if wire.cond_holds(self.conds, f"not ({src})"):
            return False
        return None

    def __repr__(self):
        return f"<{self.kind} {self.text[:120]} if {self.conds}>"


def ptext(e) -> str:
    """normalised text without blanks, single-quoted strings"""
    if e is None:
        return ""
    if isinstance(e, str):
        return e
    return norm_text(e, limit=100000).replace(" ", "").replace('"', "'")


def call(name: str, *args) -> ast.Call:
    return ast.Call(func=ast.Name(id=name, ctx=ast.Load()), args=list(args), keywords=[])


def is_pseudo(e, name: str) -> bool:
    return isinstance(e, ast.Call) and isinstance(e.func, ast.Name) and e.func.id == name


def store_parts(e):
    """(base, index, value) of a functional element store, else None"""
    if is_pseudo(e, "__store__") and len(e.args) == 3:
        return tuple(e.args)
    return None


class _Subst(ast.NodeTransformer):
    def __init__(self, env: Dict[str, ast.expr], shadow=frozenset()):
        self.env = env
        self.shadow = set(shadow)

    def visit_Name(self, n):
        if isinstance(n.ctx, ast.Load) and n.id in self.env and n.id not in self.shadow:
            return copy.deepcopy(self.env[n.id])
        return n

    def _comp(self, n):
        bound = {x.id for g in n.generators for x in ast.walk(g.target) if isinstance(x, ast.Name)}
        inner = _Subst(self.env, self.shadow | bound)
        for g in n.generators:
            g.iter = inner.visit(g.iter)
            g.ifs = [inner.visit(i) for i in g.ifs]
        for fld in ("elt", "key", "value"):
            if hasattr(n, fld):
                setattr(n, fld, inner.visit(getattr(n, fld)))
        return n
    visit_ListComp = visit_SetComp = visit_GeneratorExp = visit_DictComp = _comp

    def visit_Lambda(self, n):
        bound = {a.arg for a in n.args.args + n.args.kwonlyargs + n.args.posonlyargs}
        n.body = _Subst(self.env, self.shadow | bound).visit(n.body)
        return n


def _bound_in(stmts) -> List[str]:
    """names bound or written into anywhere in the statements (loop summarisation)"""
    out: List[str] = []

    def base(t):
        while isinstance(t, (ast.Subscript, ast.Attribute, ast.Starred)):
            t = t.value
        return t.id if isinstance(t, ast.Name) else None

    def tgt(t):
        if isinstance(t, (ast.Tuple, ast.List)):
            for e in t.elts:
                tgt(e)
        else:
            b = base(t)
            if b and b not in out:
                out.append(b)
    for st in stmts:
        for n in ast.walk(st):
            if isinstance(n, ast.Assign):
                for t in n.targets:
                    tgt(t)
            elif isinstance(n, (ast.AugAssign, ast.AnnAssign, ast.For)):
                tgt(n.target)
            elif isinstance(n, ast.NamedExpr):
                tgt(n.target)
            elif isinstance(n, ast.With):
                for i in n.items:
                    if i.optional_vars is not None:
                        tgt(i.optional_vars)
            elif isinstance(n, ast.Call) and isinstance(n.func, ast.Attribute) and n.func.attr in _MUTATORS:
                b = base(n.func.value)
                if b and b not in out and isinstance(n.func.value, ast.Name):
                    out.append(b)
    return out


def _binds_then_cannot_raise(body) -> bool:
    """in this try body, nothing that can raise is executed after a binding: a handler is then entered with the bindings the try statement started with.
    (bindings are plain `name = constant / name`; what follows each of them, to the end of the try body, is only more of the same, pass, break, continue.)"""
    def quiet(st):
        if isinstance(st, (ast.Pass, ast.Break, ast.Continue)):
            return True
        if isinstance(st, ast.Assign):
            return all(isinstance(t, ast.Name) for t in st.targets) and isinstance(st.value, (ast.Constant, ast.Name))
        return False

    def binds(st):
        return any(isinstance(n, (ast.Assign, ast.AugAssign, ast.AnnAssign, ast.NamedExpr, ast.For, ast.With)) or
                   (isinstance(n, ast.Call) and isinstance(n.func, ast.Attribute) and n.func.attr in _MUTATORS) for n in ast.walk(st))

    def ok(stmts, tail_quiet: bool) -> bool:
        """tail_quiet: everything that runs after this block (inside the try) is quiet"""
        for k, st in enumerate(stmts):
            rest_quiet = tail_quiet and all(quiet(x) for x in stmts[k + 1:])
            if not binds(st):
                continue
            if quiet(st):
                if not rest_quiet:
                    return False
                continue
            if isinstance(st, ast.If) and not any(isinstance(n, ast.NamedExpr) for n in ast.walk(st.test)):
                if not (ok(st.body, rest_quiet) and ok(st.orelse, rest_quiet)):
                    return False
                continue
            return False
        return True
    return ok(list(body), True)


def path_summaries(f: FuncInfo, limit: int = 512, body: Optional[List[ast.stmt]] = None, env0: Optional[Dict[str, ast.expr]] = None) -> Optional[List[Path]]:
    out: List[Path] = []
    over = [False]

    def sub(e, env):
        return _Subst(env).visit(copy.deepcopy(e)) if e is not None else None

    def push(conds, t, truth, env):
        while isinstance(t, ast.UnaryOp) and isinstance(t.op, ast.Not):
            t, truth = t.operand, not truth
        if isinstance(t, ast.BoolOp) and ((isinstance(t.op, ast.And) and truth) or (isinstance(t.op, ast.Or) and not truth)):
            for v in t.values:
                conds = push(conds, v, truth, env)
            return conds
        s = sub(t, env)
        while isinstance(s, ast.UnaryOp) and isinstance(s.op, ast.Not):
            s, truth = s.operand, not truth
        return conds + [(norm_text(s, limit=100000).replace('"', "'"), truth)]

    def assign(t, v, env, eff):
        """v is already substituted"""
        if isinstance(t, ast.Name):
            env[t.id] = v
        elif isinstance(t, (ast.Tuple, ast.List)):
            if isinstance(v, (ast.Tuple, ast.List)) and len(v.elts) == len(t.elts) and not any(isinstance(x, ast.Starred) for x in t.elts):
                for a, b in zip(t.elts, v.elts):
                    assign(a, b, env, eff)
            else:
                for k, a in enumerate(t.elts):
                    assign(a, ast.Subscript(value=copy.deepcopy(v), slice=ast.Constant(value=k), ctx=ast.Load()), env, eff)
        elif isinstance(t, ast.Subscript) and isinstance(t.value, ast.Name):
            nm = t.value.id
            env[nm] = call("__store__", env.get(nm, ast.Name(id=nm, ctx=ast.Load())), sub(t.slice, env), v)
        else:
            eff.append(ast.Assign(targets=[sub(t, env)], value=v, lineno=getattr(t, "lineno", 0)))

    def run(stmts, conds, env, eff, k):
        if over[0]:
            return
        if len(out) > limit:
            over[0] = True
            return
        if not stmts:
            if k:
                run(k[0], conds, env, eff, k[1:])
            else:
                out.append(Path(conds, "fall", None, eff, env, None))
            return
        st, rest = stmts[0], list(stmts[1:])
        if isinstance(st, ast.Return):
            out.append(Path(conds, "return", sub(st.value, env) if st.value is not None else ast.Constant(value=None), eff, env, st))
        elif isinstance(st, ast.Raise):
            out.append(Path(conds, "raise", sub(st.exc, env) if st.exc is not None else None, eff, env, st))
        elif isinstance(st, ast.Assign):
            env, eff = dict(env), list(eff)
            v = sub(st.value, env)
            for t in st.targets:
                assign(t, v, env, eff)
            run(rest, conds, env, eff, k)
        elif isinstance(st, ast.AnnAssign):
            env, eff = dict(env), list(eff)
            if st.value is not None:
                assign(st.target, sub(st.value, env), env, eff)
            run(rest, conds, env, eff, k)
        elif isinstance(st, ast.AugAssign):
            env, eff = dict(env), list(eff)
            cur = sub(ast.copy_location(_as_load(st.target), st.target), env)
            assign(st.target, ast.BinOp(left=cur, op=st.op, right=sub(st.value, env)), env, eff)
            run(rest, conds, env, eff, k)
        elif isinstance(st, ast.Expr):
            env, eff = dict(env), list(eff)
            v = st.value
            if isinstance(v, ast.Call) and isinstance(v.func, ast.Attribute) and isinstance(v.func.value, ast.Name) and v.func.attr in _MUTATORS and v.func.value.id in env:
                nm = v.func.value.id
                env[nm] = call("__mut__", env[nm], ast.Constant(value=v.func.attr), *[sub(a, env) for a in v.args], *[sub(kw_.value, env) for kw_ in v.keywords])
            elif not (isinstance(v, ast.Constant)):
                eff.append(sub(v, env))
            run(rest, conds, env, eff, k)
        elif isinstance(st, ast.If):
            run(st.body, push(conds, st.test, True, env), env, eff, [rest] + k)
            run(st.orelse, push(conds, st.test, False, env), env, eff, [rest] + k)
        elif isinstance(st, ast.Try):
            run(list(st.body) + list(st.orelse), conds, env, eff, [list(st.finalbody) + rest] + k)
            for h in st.handlers:
                e2 = dict(env)
                if not _binds_then_cannot_raise(st.body):
                    for nm in _bound_in(st.body):
                        e2[nm] = call("__maybe__", e2.get(nm, ast.Name(id=nm, ctx=ast.Load())), ast.Constant(value=nm))
                if h.name:
                    e2[h.name] = ast.Name(id="<exception>", ctx=ast.Load())
                run(h.body, conds + [("except " + (norm_text(h.type) if h.type is not None else ""), True)], e2, eff, [list(st.finalbody) + rest] + k)
        elif isinstance(st, (ast.For, ast.While)):
            env, eff = dict(env), list(eff)
            it = sub(st.iter, env) if isinstance(st, ast.For) else sub(st.test, env)
            for nm in _bound_in([st]):
                env[nm] = call("__loop__", copy.deepcopy(it), env.get(nm, ast.Name(id=nm, ctx=ast.Load())), ast.Constant(value=nm))
            # returns / raises inside the loop body are paths of their own (conditions: inside the loop)
            inner = [n for b in st.body for n in ast.walk(b) if isinstance(n, (ast.Return, ast.Raise))]
            for n in inner:
                out.append(Path(conds + [("in loop " + ptext(it), True)], "return" if isinstance(n, ast.Return) else "raise",
                                sub(n.value if isinstance(n, ast.Return) else n.exc, env) if (n.value if isinstance(n, ast.Return) else n.exc) is not None else None, eff, env, n))
            eff.append(call("__loopbody__", copy.deepcopy(it), ast.Constant(value=getattr(st, "lineno", 0))))
            run(list(st.orelse) + rest, conds, env, eff, k)
        elif isinstance(st, ast.With):
            env, eff = dict(env), list(eff)
            for i in st.items:
                c = sub(i.context_expr, env)
                if i.optional_vars is not None:
                    assign(i.optional_vars, c, env, eff)
                else:
                    eff.append(c)
            run(list(st.body) + rest, conds, env, eff, k)
        elif isinstance(st, (ast.FunctionDef, ast.AsyncFunctionDef, ast.ClassDef)):
            env = dict(env)
            env[st.name] = ast.Name(id=f"<local def {st.name}>", ctx=ast.Load())
            run(rest, conds, env, eff, k)
        else:
            run(rest, conds, env, eff, k)
    run(list(body if body is not None else f.node.body), [], dict(env0 or {}), [], [])
    return None if over[0] else out


def _as_load(t):
    t = copy.deepcopy(t)
    for n in ast.walk(t):
        if hasattr(n, "ctx"):
            n.ctx = ast.Load()
    return t


def returns(paths: List[Path]) -> List[Path]:
    return [p for p in paths if p.kind == "return"]


def kwargs(e: ast.Call) -> Dict[str, ast.expr]:
    """keyword arguments of a (keywordised) call expression"""
    return {k.arg: k.value for k in e.keywords if k.arg is not None}


def calls_in(e: ast.AST, suffix: str) -> List[ast.Call]:
    return [n for n in ast.walk(e) if isinstance(n, ast.Call) and norm_text(n.func).split(".")[-1] == suffix]
