"""PATHS - name-free path summaries of object-level (wiring) functions.

A rule about wiring code ("the value returned is the solver's result", "the reduced system is built with one selector") should not depend on how many temporaries the
function uses, in which order independent statements stand, or whether the alternative is an `else`, a guard clause or a conditional expression.  This module walks
every path through a function body and forward-substitutes the locals, so that what a rule sees is, per path,

    conds    the conditions that hold along it [(text, truth)], with conjunctions / failed disjunctions split and locals substituted,
    kind     'return' | 'raise' | 'fall'
    value    the returned expression as an AST in which every local has been replaced by the expression it holds on that path,
    effects  calls made for their effect and attribute stores, substituted the same way, in order.

Element stores are functional updates:  `a = np.zeros(n); a[sel] = v; return a`  returns  `__store__(np.zeros(n), sel, v)`.
In-place method calls on a local (`l.append(x)`) are  `__mut__(l, 'append', x)`.
A loop is not unrolled: every name it binds or writes into becomes `__loop__(<iterable>, <value before>, '<name>')` and the loop body is available separately.
Nothing is executed; the walk is purely syntactic and bounded (`limit` paths), returning None when the bound is hit so that the caller reports `undecided`.
"""
from __future__ import annotations

import ast
import copy
from typing import Dict, List, Optional, Tuple

from .model import FuncInfo, norm_text

_MUTATORS = {"append", "extend", "insert", "remove", "pop", "sort", "reverse", "update", "add", "clear", "fill", "setdefault"}


class Path:
    def __init__(self, conds, kind, value, effects, env, node):
        self.conds: List[Tuple[str, bool]] = conds
        self.kind: str = kind
        self.value: Optional[ast.expr] = value
        self.effects: List[ast.expr] = effects
        self.env: Dict[str, ast.expr] = env
        self.node = node

    @property
    def text(self) -> str:
        return ptext(self.value) if self.value is not None else ""

    def holds(self, src: str) -> Optional[bool]:
        """truth of the atomic condition `src` on this path (None: the path does not decide it)"""
        from . import wire
        if wire.cond_holds(self.conds, src):
            return True
        if wire.cond_holds(self.conds, f"not ({src})"):
            return False
        return None

    def __repr__(self):
        return f"<{self.kind} {self.text[:120]} if {self.conds}>"


_NEG_TEXT_CACHE: Dict[str, Optional[str]] = {}


def _neg_text(text: str) -> Optional[str]:
    """the comparison that is true exactly when the atomic comparison `text` is false (None when `text` is not a single comparison)"""
    if text in _NEG_TEXT_CACHE:
        return _NEG_TEXT_CACHE[text]
    from . import wire
    out = None
    try:
        t = ast.parse(text, mode="eval").body
        if isinstance(t, ast.Compare) and len(t.ops) == 1 and type(t.ops[0]) in wire._NEG_CMP:
            out = norm_text(ast.Compare(left=t.left, ops=[wire._NEG_CMP[type(t.ops[0])]()], comparators=t.comparators), limit=100000).replace('"', "'")
    except SyntaxError:
        out = None
    _NEG_TEXT_CACHE[text] = out
    return out


def ptext(e) -> str:
    """normalised text without blanks, single-quoted strings"""
    if e is None:
        return ""
    if isinstance(e, str):
        return e
    return norm_text(e, limit=100000).replace(" ", "").replace('"', "'")


def call(name: str, *args) -> ast.Call:
    return ast.Call(func=ast.Name(id=name, ctx=ast.Load()), args=list(args), keywords=[])


def is_pseudo(e, name: str) -> bool:
    return isinstance(e, ast.Call) and isinstance(e.func, ast.Name) and e.func.id == name


def store_parts(e):
    """(base, index, value) of a functional element store, else None"""
    if is_pseudo(e, "__store__") and len(e.args) == 3:
        return tuple(e.args)
    return None


class _Subst(ast.NodeTransformer):
    def __init__(self, env: Dict[str, ast.expr], shadow=frozenset()):
        self.env = env
        self.shadow = set(shadow)

    def visit_Name(self, n):
        if isinstance(n.ctx, ast.Load) and n.id in self.env and n.id not in self.shadow:
            return copy.deepcopy(self.env[n.id])
        return n

    def visit_Call(self, n):
        if isinstance(n.func, ast.Name) and n.func.id == "__done__" and len(n.args) == 1:
            return n.args[0]   # already expressed in the caller's terms (the value of a helper that was looked into): not substituted again
        return self.generic_visit(n)

    def _comp(self, n):
        bound = {x.id for g in n.generators for x in ast.walk(g.target) if isinstance(x, ast.Name)}
        inner = _Subst(self.env, self.shadow | bound)
        for g in n.generators:
            g.iter = inner.visit(g.iter)
            g.ifs = [inner.visit(i) for i in g.ifs]
        for fld in ("elt", "key", "value"):
            if hasattr(n, fld):
                setattr(n, fld, inner.visit(getattr(n, fld)))
        return n
    visit_ListComp = visit_SetComp = visit_GeneratorExp = visit_DictComp = _comp

    def visit_Lambda(self, n):
        bound = {a.arg for a in n.args.args + n.args.kwonlyargs + n.args.posonlyargs}
        n.body = _Subst(self.env, self.shadow | bound).visit(n.body)
        return n


def _bound_in(stmts) -> List[str]:
    """names bound or written into anywhere in the statements (loop summarisation)"""
    out: List[str] = []

    def base(t):
        while isinstance(t, (ast.Subscript, ast.Attribute, ast.Starred)):
            t = t.value
        return t.id if isinstance(t, ast.Name) else None

    def tgt(t):
        if isinstance(t, (ast.Tuple, ast.List)):
            for e in t.elts:
                tgt(e)
        else:
            b = base(t)
            if b and b not in out:
                out.append(b)
    for st in stmts:
        for n in ast.walk(st):
            if isinstance(n, ast.Assign):
                for t in n.targets:
                    tgt(t)
            elif isinstance(n, (ast.AugAssign, ast.AnnAssign, ast.For)):
                tgt(n.target)
            elif isinstance(n, ast.NamedExpr):
                tgt(n.target)
            elif isinstance(n, ast.With):
                for i in n.items:
                    if i.optional_vars is not None:
                        tgt(i.optional_vars)
            elif isinstance(n, ast.Call) and isinstance(n.func, ast.Attribute) and n.func.attr in _MUTATORS:
                b = base(n.func.value)
                if b and b not in out and isinstance(n.func.value, ast.Name):
                    out.append(b)
    return out


def _binds_then_cannot_raise(body) -> bool:
    """in this try body, nothing that can raise is executed after a binding: a handler is then entered with the bindings the try statement started with.
    (bindings are plain `name = constant / name`; what follows each of them, to the end of the try body, is only more of the same, pass, break, continue.)"""
    def quiet(st):
        if isinstance(st, (ast.Pass, ast.Break, ast.Continue)):
            return True
        if isinstance(st, ast.Assign):
            return all(isinstance(t, ast.Name) for t in st.targets) and isinstance(st.value, (ast.Constant, ast.Name))
        return False

    def binds(st):
        return any(isinstance(n, (ast.Assign, ast.AugAssign, ast.AnnAssign, ast.NamedExpr, ast.For, ast.With)) or
                   (isinstance(n, ast.Call) and isinstance(n.func, ast.Attribute) and n.func.attr in _MUTATORS) for n in ast.walk(st))

    def ok(stmts, tail_quiet: bool) -> bool:
        """tail_quiet: everything that runs after this block (inside the try) is quiet"""
        for k, st in enumerate(stmts):
            rest_quiet = tail_quiet and all(quiet(x) for x in stmts[k + 1:])
            if not binds(st):
                continue
            if quiet(st):
                if not rest_quiet:
                    return False
                continue
            if isinstance(st, ast.If) and not any(isinstance(n, ast.NamedExpr) for n in ast.walk(st.test)):
                if not (ok(st.body, rest_quiet) and ok(st.orelse, rest_quiet)):
                    return False
                continue
            return False
        return True
    return ok(list(body), True)


def _is_new_function(project, g) -> bool:
    """a module-level function / method that does not exist in the reference snapshot: an extraction made by a refactoring, looked into rather than treated as a primitive"""
    try:
        from .canon import reference_table
        r = reference_table().get(g.module.relpath)
    except Exception:
        return False
    from .inline import transparent
    return r is not None and g.qualname not in r and g.parent is None and transparent(g)


def path_summaries(f: FuncInfo, limit: int = 512, body: Optional[List[ast.stmt]] = None, env0: Optional[Dict[str, ast.expr]] = None, project=None, depth: int = 0, unfold=frozenset()) -> Optional[List[Path]]:
    """project: when given, a call to a function that is NEW with respect to the reference snapshot (an extracted helper), standing as the whole test of an `if`, the whole
    right-hand side of an assignment or the whole returned value, is looked into: each of its return paths continues the caller's path with the helper's conditions.
    unfold: keys of (reference) functions to look into in the same way - thin wrappers whose definition a rule wants to see through, so that calling the wrapper and
    writing out its body give one form."""
    out: List[Path] = []
    over = [False]

    def sub(e, env):
        return _Subst(env).visit(copy.deepcopy(e)) if e is not None else None

    def add(conds, text, truth):
        """conds + the literal, or None when the path becomes infeasible (the opposite literal is already on it)"""
        if (text, not truth) in conds:
            return None
        if (text, truth) in conds:
            return conds
        # the same fact in the other comparison polarity (`x is None` false = `x is not None` true)
        neg = _neg_text(text)
        if neg is not None:
            if (neg, truth) in conds:
                return None
            if (neg, not truth) in conds:
                return conds
        return conds + [(text, truth)]

    def push_all(conds, t, truth, env):
        """the alternative condition lists of the path after `t` evaluated to `truth` (none when that cannot happen on this path: a constant test, a contradiction).
        A conjunction that holds / a disjunction that fails adds all its parts; a disjunction that holds (a conjunction that fails) splits into the disjoint cases
        "first part decides", "first part does not, second does", ... so that every condition on a path is an atomic test."""
        if conds is None:
            return []
        while isinstance(t, ast.UnaryOp) and isinstance(t.op, ast.Not):
            t, truth = t.operand, not truth
        if isinstance(t, ast.BoolOp):
            all_parts = (isinstance(t.op, ast.And) and truth) or (isinstance(t.op, ast.Or) and not truth)
            if all_parts:
                alts = [conds]
                for v in t.values:
                    alts = [c2 for c in alts for c2 in push_all(c, v, truth, env)]
                return alts
            res, prefix = [], [conds]
            for v in t.values:
                res.extend(c2 for c in prefix for c2 in push_all(c, v, truth, env))
                prefix = [c2 for c in prefix for c2 in push_all(c, v, not truth, env)]
                if not prefix:
                    break
            return res
        s = sub(t, env)
        while isinstance(s, ast.UnaryOp) and isinstance(s.op, ast.Not):
            s, truth = s.operand, not truth
        # `E is None` / `E is not None` after substitution: a literal decides it; a copy of E is None exactly when E is
        if isinstance(s, ast.Compare) and len(s.ops) == 1 and isinstance(s.ops[0], (ast.Is, ast.IsNot)) and isinstance(s.comparators[0], ast.Constant) and s.comparators[0].value is None:
            l = s.left
            while isinstance(l, ast.Call) and norm_text(l.func) in ("copy.copy", "copy.deepcopy") and len(l.args) == 1 and not l.keywords:
                l = l.args[0]
            if isinstance(l, ast.Constant):
                s = ast.Constant(value=(l.value is None) == isinstance(s.ops[0], ast.Is))
            elif isinstance(l, (ast.List, ast.Tuple, ast.Dict, ast.ListComp, ast.JoinedStr)):
                s = ast.Constant(value=isinstance(s.ops[0], ast.IsNot))
            elif l is not s.left:
                s = ast.Compare(left=l, ops=s.ops, comparators=s.comparators)
        if isinstance(s, ast.Constant):
            return [conds] if bool(s.value) == truth else []
        if isinstance(s, ast.BoolOp):
            return push_all(conds, s, truth, {})
        c2 = add(conds, norm_text(s, limit=100000).replace('"', "'"), truth)
        return [c2] if c2 is not None else []

    def expand(e, env):
        """[(extra conditions, value)] for a call of a new helper (its return paths, parameters bound to the substituted arguments); None when e is not such a call"""
        if project is None or depth >= 2 or not isinstance(e, ast.Call):
            return None
        try:
            tg = project.resolve_call(e, f)
        except Exception:
            return None
        if len(tg) != 1 or tg[0] is f or not (_is_new_function(project, tg[0]) or tg[0].key in unfold) or tg[0].vararg or tg[0].kwarg:
            return None
        g = tg[0]
        if any(isinstance(a, ast.Starred) for a in e.args) or any(k.arg is None for k in e.keywords):
            return None
        b, _complete = project.bind(e, g)
        e0: Dict[str, ast.expr] = {}
        for prm in g.call_params + g.kwonly:
            if prm in b:
                e0[prm] = sub(b[prm], env)
            elif prm in g.defaults and g.defaults[prm] is not None:
                e0[prm] = copy.deepcopy(g.defaults[prm])
            else:
                return None
        if g.cls is not None and not g.is_staticmethod and g.params:
            if not isinstance(e.func, ast.Attribute):
                return None
            e0[g.params[0]] = sub(e.func.value, env)
        ps = path_summaries(g, limit=64, env0=e0, project=project, depth=depth + 1, unfold=unfold)
        if ps is None or any(q.kind != "return" for q in ps):
            return None
        return [(q.conds, q.value) for q in ps]

    def variants(e, conds, env):
        """[(conditions, substituted value)]: a conditional expression inside the value splits the path; a new helper called as the whole value contributes its return paths"""
        if e is None:
            return [(conds, None)]
        ex = expand(e, env)
        if ex is not None:
            res = []
            for c2, v in ex:
                cc = conds
                for t_, tr_ in c2:
                    cc = add(cc, t_, tr_) if cc is not None else None
                if cc is not None:
                    res.append((cc, v))
            return res
        first = None
        stack = [e]
        while stack and first is None:
            n = stack.pop(0)
            if isinstance(n, ast.IfExp):
                first = n
                break
            if isinstance(n, (ast.Lambda, ast.ListComp, ast.SetComp, ast.DictComp, ast.GeneratorExp)) or is_pseudo(n, "__done__"):
                continue
            if isinstance(n, ast.Call) and n is not e:
                ex2 = expand(n, env)
                if ex2 is not None:
                    # a helper looked into in the middle of the value (an element of a tuple / list, an argument): one continuation per return path of the helper
                    res = []
                    for c2, v in ex2:
                        cc = conds
                        for t_, tr_ in c2:
                            cc = add(cc, t_, tr_) if cc is not None else None
                        if cc is not None:
                            res.extend(variants(_replace(e, n, call("__done__", v)), cc, env))
                    return res
            if isinstance(n, ast.BoolOp):
                stack.append(n.values[0])   # later operands are evaluated conditionally
                continue
            stack.extend(ast.iter_child_nodes(n))
        if first is None:
            return [(conds, sub(e, env))]
        res = []
        for truth, arm in ((True, first.body), (False, first.orelse)):
            for cc in push_all(conds, first.test, truth, env):
                res.extend(variants(_replace(e, first, arm), cc, env))
        return res

    def assign(t, v, env, eff):
        """v is already substituted"""
        if isinstance(t, ast.Name):
            env[t.id] = v
        elif isinstance(t, (ast.Tuple, ast.List)):
            if isinstance(v, (ast.Tuple, ast.List)) and len(v.elts) == len(t.elts) and not any(isinstance(x, ast.Starred) for x in t.elts):
                for a, b in zip(t.elts, v.elts):
                    assign(a, b, env, eff)
            else:
                for k, a in enumerate(t.elts):
                    assign(a, ast.Subscript(value=copy.deepcopy(v), slice=ast.Constant(value=k), ctx=ast.Load()), env, eff)
        elif isinstance(t, ast.Subscript) and isinstance(t.value, ast.Name):
            nm = t.value.id
            env[nm] = call("__store__", env.get(nm, ast.Name(id=nm, ctx=ast.Load())), sub(t.slice, env), v)
        elif isinstance(t, ast.Subscript) and _sub_root(t) is not None:
            # A[i][j] = v writes element (i, j) of A: one store with the chained indices side by side
            nm, chain_ = _sub_root(t)
            idx = []
            for sl in chain_:
                idx.extend(sl.elts if isinstance(sl, ast.Tuple) else [sl])
            env[nm] = call("__store__", env.get(nm, ast.Name(id=nm, ctx=ast.Load())), sub(ast.Tuple(elts=idx, ctx=ast.Load()), env), v)
        else:
            eff.append(ast.Assign(targets=[sub(t, env)], value=v, lineno=getattr(t, "lineno", 0)))

    def run(stmts, conds, env, eff, k):
        if over[0]:
            return
        if len(out) > limit:
            over[0] = True
            return
        if not stmts:
            if k:
                run(k[0], conds, env, eff, k[1:])
            else:
                out.append(Path(conds, "fall", None, eff, env, None))
            return
        st, rest = stmts[0], list(stmts[1:])
        if isinstance(st, ast.Return) and _is_predicate_return(st, f, body):
            # `return <test>` in a function whose other returns are True / False is `if <test>: return True` / `return False`
            e0 = st.value
            while isinstance(e0, ast.Call) and isinstance(e0.func, ast.Name) and e0.func.id == "bool" and len(e0.args) == 1 and not e0.keywords:
                e0 = e0.args[0]
            for truth in (True, False):
                for c2 in push_all(conds, e0, truth, env):
                    out.append(Path(c2, "return", ast.Constant(value=truth), eff, env, st))
        elif isinstance(st, ast.Return):
            if st.value is None:
                out.append(Path(conds, "return", ast.Constant(value=None), eff, env, st))
            for c2, v in (variants(st.value, conds, env) if st.value is not None else ()):
                out.append(Path(c2, "return", v, eff, env, st))
        elif isinstance(st, ast.Raise):
            out.append(Path(conds, "raise", sub(st.exc, env) if st.exc is not None else None, eff, env, st))
        elif isinstance(st, ast.Assign):
            for c2, v in variants(st.value, conds, env):
                env2, eff2 = dict(env), list(eff)
                for t in st.targets:
                    assign(t, copy.deepcopy(v), env2, eff2)
                run(rest, c2, env2, eff2, k)
        elif isinstance(st, ast.AnnAssign):
            env, eff = dict(env), list(eff)
            if st.value is not None:
                assign(st.target, sub(st.value, env), env, eff)
            run(rest, conds, env, eff, k)
        elif isinstance(st, ast.AugAssign):
            env, eff = dict(env), list(eff)
            cur = sub(ast.copy_location(_as_load(st.target), st.target), env)
            assign(st.target, ast.BinOp(left=cur, op=st.op, right=sub(st.value, env)), env, eff)
            run(rest, conds, env, eff, k)
        elif isinstance(st, ast.Expr):
            env, eff = dict(env), list(eff)
            v = st.value
            if isinstance(v, ast.Call) and isinstance(v.func, ast.Attribute) and isinstance(v.func.value, ast.Name) and v.func.attr in _MUTATORS and v.func.value.id in env:
                nm = v.func.value.id
                env[nm] = call("__mut__", env[nm], ast.Constant(value=v.func.attr), *[sub(a, env) for a in v.args], *[sub(kw_.value, env) for kw_ in v.keywords])
            elif not (isinstance(v, ast.Constant)):
                eff.append(sub(v, env))
            run(rest, conds, env, eff, k)
        elif isinstance(st, ast.If):
            t, neg = st.test, False
            while isinstance(t, ast.UnaryOp) and isinstance(t.op, ast.Not):
                t, neg = t.operand, not neg
            ex = expand(t, env)
            if ex is not None:
                # the test is a call of a new helper: one continuation per return path of the helper
                for c2, v in ex:
                    cc = conds
                    for t_, tr_ in c2:
                        cc = add(cc, t_, tr_) if cc is not None else None
                    if cc is None:
                        continue
                    for truth, arm in ((True, st.body), (False, st.orelse)):
                        for c3 in push_all(cc, v, truth != neg, {}):
                            run(arm, c3, env, eff, [rest] + k)
            else:
                for truth, arm in ((True, st.body), (False, st.orelse)):
                    for c2 in push_all(conds, st.test, truth, env):
                        run(arm, c2, env, eff, [rest] + k)
        elif isinstance(st, ast.Try):
            run(list(st.body) + list(st.orelse), conds, env, eff, [list(st.finalbody) + rest] + k)
            for h in st.handlers:
                e2 = dict(env)
                if not _binds_then_cannot_raise(st.body):
                    for nm in _bound_in(st.body):
                        e2[nm] = call("__maybe__", e2.get(nm, ast.Name(id=nm, ctx=ast.Load())), ast.Constant(value=nm))
                if h.name:
                    e2[h.name] = ast.Name(id="<exception>", ctx=ast.Load())
                run(h.body, conds + [("except " + (norm_text(h.type) if h.type is not None else ""), True)], e2, eff, [list(st.finalbody) + rest] + k)
        elif isinstance(st, (ast.For, ast.While)):
            env, eff = dict(env), list(eff)
            it = sub(st.iter, env) if isinstance(st, ast.For) else sub(st.test, env)
            for nm in _bound_in([st]):
                env[nm] = call("__loop__", copy.deepcopy(it), env.get(nm, ast.Name(id=nm, ctx=ast.Load())), ast.Constant(value=nm))
            # returns / raises inside the loop body are paths of their own (conditions: inside the loop)
            inner = [n for b in st.body for n in ast.walk(b) if isinstance(n, (ast.Return, ast.Raise))]
            for n in inner:
                out.append(Path(conds + [("in loop " + ptext(it), True)], "return" if isinstance(n, ast.Return) else "raise",
                                sub(n.value if isinstance(n, ast.Return) else n.exc, env) if (n.value if isinstance(n, ast.Return) else n.exc) is not None else None, eff, env, n))
            eff.append(call("__loopbody__", copy.deepcopy(it), ast.Constant(value=getattr(st, "lineno", 0))))
            run(list(st.orelse) + rest, conds, env, eff, k)
        elif isinstance(st, ast.With):
            env, eff = dict(env), list(eff)
            for i in st.items:
                c = sub(i.context_expr, env)
                if i.optional_vars is not None:
                    assign(i.optional_vars, c, env, eff)
                else:
                    eff.append(c)
            run(list(st.body) + rest, conds, env, eff, k)
        elif isinstance(st, (ast.FunctionDef, ast.AsyncFunctionDef, ast.ClassDef)):
            env = dict(env)
            env[st.name] = ast.Name(id=f"<local def {st.name}>", ctx=ast.Load())
            run(rest, conds, env, eff, k)
        else:
            run(rest, conds, env, eff, k)
    run(list(body if body is not None else f.node.body), [], dict(env0 or {}), [], [])
    return None if over[0] else out


def _is_predicate_return(st: ast.Return, f: FuncInfo, body) -> bool:
    e0, wrapped = st.value, False
    while isinstance(e0, ast.Call) and isinstance(e0.func, ast.Name) and e0.func.id == "bool" and len(e0.args) == 1 and not e0.keywords:
        e0, wrapped = e0.args[0], True
    if not (isinstance(e0, (ast.Compare, ast.BoolOp)) or (isinstance(e0, ast.UnaryOp) and isinstance(e0.op, ast.Not))):
        return False
    if body is not None:
        return False
    others = [r for r in ast.walk(f.node) if isinstance(r, ast.Return) and r is not st]
    consts = [r for r in others if isinstance(r.value, ast.Constant) and isinstance(r.value.value, bool)]
    preds = [r for r in others if r not in consts and isinstance(r.value, (ast.Compare, ast.BoolOp, ast.UnaryOp))]
    return bool(consts) and len(consts) + len(preds) == len(others)


def _sub_root(t):
    """(name, [slice, ...] outermost base first) for a chained subscript A[i][j] rooted at a name, else None"""
    chain_ = []
    while isinstance(t, ast.Subscript):
        chain_.append(t.slice)
        t = t.value
    if isinstance(t, ast.Name) and len(chain_) >= 2:
        return t.id, list(reversed(chain_))
    return None


def _replace(tree, target, repl):
    """a deep copy of tree in which the node `target` (by identity) is replaced by a copy of `repl`"""
    if tree is target:
        return copy.deepcopy(repl)
    if isinstance(tree, ast.AST):
        new = type(tree)()
        for k, v in ast.iter_fields(tree):
            setattr(new, k, _replace(v, target, repl))
        for a in ("lineno", "col_offset", "end_lineno", "end_col_offset"):
            if hasattr(tree, a):
                setattr(new, a, getattr(tree, a))
        return new
    if isinstance(tree, list):
        return [_replace(x, target, repl) for x in tree]
    return tree


def _as_load(t):
    t = copy.deepcopy(t)
    for n in ast.walk(t):
        if hasattr(n, "ctx"):
            n.ctx = ast.Load()
    return t


def returns(paths: List[Path]) -> List[Path]:
    return [p for p in paths if p.kind == "return"]


def kwargs(e: ast.Call) -> Dict[str, ast.expr]:
    """keyword arguments of a (keywordised) call expression"""
    return {k.arg: k.value for k in e.keywords if k.arg is not None}


def calls_in(e: ast.AST, suffix: str) -> List[ast.Call]:
    return [n for n in ast.walk(e) if isinstance(n, ast.Call) and norm_text(n.func).split(".")[-1] == suffix]


def canon_test(t: str) -> str:
    """the text of an atomic condition in one polarity: `x is None` -> `x is not None`, `a != b` -> `a == b`, `a not in b` -> `a in b` (which truth value it had on a path is a separate fact)"""
    try:
        e = ast.parse(t, mode="eval").body
    except SyntaxError:
        return t
    if isinstance(e, ast.Compare) and len(e.ops) == 1:
        flip = {ast.Is: ast.IsNot, ast.NotEq: ast.Eq, ast.NotIn: ast.In}
        if type(e.ops[0]) in flip:
            e = ast.Compare(left=e.left, ops=[flip[type(e.ops[0])]()], comparators=e.comparators)
            return norm_text(e, limit=100000).replace('"', "'")
    return t


def flat_args(c: ast.Call) -> List[ast.expr]:
    """positional arguments of a call with starred tuple displays / concatenations written out: f(*((a,) + (b,) + rest)) -> [a, b, *rest]"""
    out: List[ast.expr] = []

    def star(e):
        if isinstance(e, ast.BinOp) and isinstance(e.op, ast.Add):
            star(e.left)
            star(e.right)
        elif isinstance(e, (ast.Tuple, ast.List)):
            for x in e.elts:
                if isinstance(x, ast.Starred):
                    star(x.value)
                else:
                    out.append(x)
        else:
            out.append(ast.Starred(value=e, ctx=ast.Load()))
    for a in c.args:
        if isinstance(a, ast.Starred):
            star(a.value)
        else:
            out.append(a)
    return out
