"""N11 - private helper functions that are NOT in the reference snapshot are inlined into their callers before any rule runs.

"Extract method" is the commonest structural refactor: a few statements move into a new private helper.  The rules are anchored on the functions of the
reference tree, so a helper that did not exist there is a refactoring artefact; splicing its body back restores the shape the rules know.  Nothing is lost for
detection: a real change inside such a helper is seen, after inlining, in the caller.  Functions that exist in the reference (sa/alpha_reference.json) are never
inlined - they are anchors in their own right.

Handled: helpers whose only `return` is their last statement (or that return nothing), called as a whole statement (`return h(..)`, `x = h(..)`, `h(..)`), and
helpers that consist of a single `return <expr>`, called anywhere in an expression.  Arguments are bound by name; non-trivial arguments are first bound to fresh
temporaries (evaluation order and single evaluation preserved); the helper's locals are renamed apart.  Anything else is left as written.
"""
from __future__ import annotations

import ast
import copy
from typing import Dict, List, Optional

from .canon import _own_locals


TRANSPARENT_DECORATORS = {"numba_util.jit", "jit", "numba.jit", "staticmethod", "classmethod", "property", "profile_func", "profile.profile_func"}


def transparent(g) -> bool:
    """only decorators that do not change what a call computes (a memoising decorator such as lru_cache / cached_property does: the helper is then NOT interchangeable with its body)"""
    return all(d in TRANSPARENT_DECORATORS for d in g.decorators)


def _is_new_private(g, ref) -> bool:
    if not transparent(g):
        return False
    if not g.name.startswith("_") or (g.name.startswith("__") and g.name.endswith("__")) or g.parent is not None:
        return False
    r = ref.get(g.module.relpath)
    if r is None:
        return False   # a whole new module: not an extraction from an anchored function
    return g.qualname not in r


def _single_exit(g) -> Optional[str]:
    """'expr' (body is one return), 'tail' (one return, last statement), 'none' (no return), or None (not inlinable)"""
    body = [s for s in g.node.body if not (isinstance(s, ast.Expr) and isinstance(s.value, ast.Constant) and isinstance(s.value.value, str))]
    rets = [n for n in ast.walk(g.node) if isinstance(n, ast.Return)]
    bad = [n for n in ast.walk(g.node) if isinstance(n, (ast.Yield, ast.YieldFrom, ast.Await, ast.Global, ast.Nonlocal))]
    nested = [n for n in ast.walk(g.node) if isinstance(n, (ast.FunctionDef, ast.AsyncFunctionDef, ast.Lambda)) and n is not g.node]
    if bad or nested or g.vararg or g.kwarg:
        return None
    if not rets:
        return "none"
    if len(rets) == 1 and body and body[-1] is rets[0] and rets[0].value is not None:
        return "expr" if len(body) == 1 else "tail"
    return None


class _Subst(ast.NodeTransformer):
    def __init__(self, mapping: Dict[str, ast.expr]):
        self.m = mapping

    def visit_Name(self, n):
        if n.id in self.m:
            r = self.m[n.id]
            if isinstance(n.ctx, ast.Load):
                return copy.deepcopy(r)
            if isinstance(r, ast.Name):
                return ast.copy_location(ast.Name(id=r.id, ctx=n.ctx), n)
        return n


def inline_new_helpers(project, ref) -> int:
    helpers = {}
    for g in project.all_functions():
        if _is_new_private(g, ref):
            kind = _single_exit(g)
            if kind is not None:
                helpers[g.key] = (g, kind)
    project.inlined_keys = set()
    if not helpers:
        return 0
    counter = [0]
    done = 0

    def binding(c: ast.Call, g, caller):
        if any(isinstance(a, ast.Starred) for a in c.args) or any(k.arg is None for k in c.keywords):
            return None
        b, complete = project.bind(c, g)
        m: Dict[str, ast.expr] = {}
        for prm in g.call_params + g.kwonly:
            if prm in b:
                m[prm] = b[prm]
            elif prm in g.defaults and g.defaults[prm] is not None:
                m[prm] = g.defaults[prm]
            else:
                return None
        if g.cls is not None and not g.is_staticmethod and g.params:
            if not isinstance(c.func, ast.Attribute):
                return None
            recv = c.func.value
            if g.is_classmethod and not (isinstance(recv, ast.Name)):
                return None
            m[g.params[0]] = recv
        return m

    def instantiate(g, kind, m, lineno):
        """(prelude statements, value expression or None)"""
        counter[0] += 1
        tag = f"_i{counter[0]}_"
        pre: List[ast.stmt] = []
        sub: Dict[str, ast.expr] = {}
        stored_params = {n.id for n in ast.walk(g.node) if isinstance(n, ast.Name) and isinstance(n.ctx, (ast.Store, ast.Del))}
        for prm, arg in m.items():
            if isinstance(arg, (ast.Name, ast.Constant)) and prm not in stored_params or (isinstance(arg, ast.Attribute) and prm not in stored_params and prm == (g.params[0] if g.params else None)):
                sub[prm] = arg
            else:
                tmp = tag + prm
                pre.append(ast.Assign(targets=[ast.Name(id=tmp, ctx=ast.Store())], value=copy.deepcopy(arg), lineno=lineno))
                sub[prm] = ast.Name(id=tmp, ctx=ast.Load())
        locs, _ = _own_locals(g.node)
        for v in locs:
            sub[v] = ast.Name(id=tag + v, ctx=ast.Load())
        body = [copy.deepcopy(s) for s in g.node.body if not (isinstance(s, ast.Expr) and isinstance(s.value, ast.Constant) and isinstance(s.value.value, str))]
        body = [_Subst(sub).visit(s) for s in body]
        val = None
        if kind in ("expr", "tail"):
            val = body[-1].value
            body = body[:-1]
        for s in pre + body:
            for n in ast.walk(s):
                if not hasattr(n, "lineno"):
                    n.lineno = lineno
                    n.col_offset = 0
        return pre + body, val

    def target_of(c: ast.Call, f):
        try:
            tg = project.resolve_call(c, f)
        except Exception:
            return None
        if len(tg) != 1 or tg[0].key not in helpers or tg[0] is f:
            return None
        return helpers[tg[0].key]

    for _round in range(3):   # helpers calling helpers
        changed = 0
        for f in list(project.all_functions()):
            if f.key in helpers and _round == 0:
                pass

            def block(stmts: List[ast.stmt]) -> List[ast.stmt]:
                nonlocal changed
                out: List[ast.stmt] = []
                for st in stmts:
                    for fld in ("body", "orelse", "finalbody"):
                        sub = getattr(st, fld, None)
                        if isinstance(sub, list) and sub and isinstance(sub[0], ast.stmt) and not isinstance(st, (ast.FunctionDef, ast.AsyncFunctionDef, ast.ClassDef)):
                            setattr(st, fld, block(sub))
                    if isinstance(st, ast.Try):
                        for h in st.handlers:
                            h.body = block(h.body)
                    call = st.value if isinstance(st, (ast.Return, ast.Assign, ast.Expr)) and isinstance(getattr(st, "value", None), ast.Call) else None
                    hit = target_of(call, f) if call is not None else None
                    if hit is not None:
                        g, kind = hit
                        m = binding(call, g, f)
                        if m is not None:
                            pre, val = instantiate(g, kind, m, st.lineno)
                            out.extend(pre)
                            if isinstance(st, ast.Expr):
                                if val is not None:
                                    out.append(ast.copy_location(ast.Expr(value=val), st))
                            else:
                                st.value = val if val is not None else ast.Constant(value=None)
                                out.append(st)
                            changed += 1
                            continue
                    # single-expression helpers anywhere inside the statement (header expressions only: not inside nested statement lists)
                    class E(ast.NodeTransformer):
                        def visit_Call(s2, n):
                            s2.generic_visit(n)
                            h2 = target_of(n, f)
                            if h2 is not None and h2[1] == "expr":
                                m2 = binding(n, h2[0], f)
                                if m2 is not None and all(isinstance(a, (ast.Name, ast.Constant, ast.Attribute)) for a in m2.values()):
                                    nonlocal changed
                                    changed += 1
                                    pre, val = instantiate(h2[0], "expr", m2, getattr(n, "lineno", st.lineno))
                                    if not pre:
                                        return ast.copy_location(val, n)
                            return n

                        def visit_FunctionDef(s2, n):
                            return n
                        visit_AsyncFunctionDef = visit_Lambda = visit_ClassDef = visit_FunctionDef
                    if isinstance(st, (ast.Assign, ast.AugAssign, ast.Return, ast.Expr)):
                        st = E().visit(st)
                    elif isinstance(st, ast.If):
                        st.test = E().visit(st.test)
                    elif isinstance(st, ast.For):
                        st.iter = E().visit(st.iter)
                    out.append(st)
                return out
            f.node.body = block(f.node.body)
        done += changed
        if not changed:
            break
    if done:
        for m in project.modules.values():
            ast.fix_missing_locations(m.tree)
    project.inlined_keys = set(helpers)   # these functions no longer have call sites: rules that look at "who calls / who is never called" skip them
    return done


def inline_new_closures(project, ref) -> int:
    """N11 for local helpers: a nested `def h(a, ..): return <expr>` that is not in the reference snapshot, defined as a plain statement of the enclosing
    function's body and used there only by being called with plain names / constants, is replaced by its expression at every call (a closure reads the
    enclosing variables at call time, which is exactly what the substituted expression does), and the definition is removed."""
    done = 0
    for m in project.modules.values():
        r = ref.get(m.relpath)
        if r is None:
            continue
        for g in list(m.all_funcs):
            f = g.parent
            if f is None or g.qualname in r or g.node not in f.node.body or g.node.decorator_list or g.vararg or g.kwarg or g.kwonly:
                continue
            if _single_exit(g) != "expr":
                continue
            a = g.node.args
            if a.defaults or a.kw_defaults:
                continue
            expr = [s_ for s_ in g.node.body if isinstance(s_, ast.Return)][0].value
            if any(isinstance(n, ast.Name) and isinstance(n.ctx, ast.Store) for n in ast.walk(expr)):
                continue
            uses = [n for n in ast.walk(f.node) if isinstance(n, ast.Name) and n.id == g.name and not any(n is x for x in ast.walk(g.node))]
            calls = [n for n in ast.walk(f.node) if isinstance(n, ast.Call) and isinstance(n.func, ast.Name) and n.func.id == g.name and not any(n is x for x in ast.walk(g.node))]
            ok = len(uses) == len(calls) and bool(calls)
            binds = {}
            for c in calls:
                if c.keywords and any(k.arg is None for k in c.keywords) or any(isinstance(x, ast.Starred) for x in c.args) or len(c.args) > len(g.params):
                    ok = False
                    break
                b = dict(zip(g.params, c.args))
                for k in c.keywords:
                    if k.arg in b or k.arg not in g.params:
                        ok = False
                    b[k.arg] = k.value
                if set(b) != set(g.params) or not all(isinstance(v, (ast.Name, ast.Constant)) for v in b.values()):
                    ok = False
                binds[id(c)] = b
            if not ok:
                continue

            class R(ast.NodeTransformer):
                def visit_Call(s2, n):
                    s2.generic_visit(n)
                    if id(n) in binds:
                        return ast.copy_location(_Subst(binds[id(n)]).visit(copy.deepcopy(expr)), n)
                    return n
            f.node.body = [R().visit(st) for st in f.node.body if st is not g.node]
            m.all_funcs.remove(g)
            project._func_by_node.pop(id(g.node), None)
            done += 1
        if done:
            ast.fix_missing_locations(m.tree)
    return done
