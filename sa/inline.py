"""N11 - functions, methods and properties that are NOT in the reference snapshot are inlined into their callers before any rule runs.

"Extract method" is the commonest structural refactor: a few statements move into a new helper (private or public, a module function, a method, a static method, a
plain property).  The rules are anchored on the functions of the reference tree, so a helper that did not exist there is a refactoring artefact; splicing its body back
restores the shape the rules know.  Nothing is lost for detection: a real change inside such a helper is seen, after inlining, in the caller.  Functions that exist in
the reference (sa/alpha_reference.json) are never inlined - they are anchors in their own right.  A helper behind a decorator that changes what a call computes
(lru_cache, cached_property, any wrapper not listed as transparent) is NOT interchangeable with its body and is left alone.

Handled:
  * a helper that is one `return <expr>` ('expr'): replaced by the expression wherever it is called (read, for a property) with plain arguments;
  * a helper whose only `return` is its last statement, or that returns nothing ('tail' / 'none'): spliced in where the call is a whole statement
    (`return h(..)`, `x = h(..)`, `h(..)`), or hoisted into a temporary right before the simple statement that contains the call;
  * a helper with several returns, all outside loops / try / with ('multi'): `return h(..)` splices the body as it is; `x = h(..)` splices it with every
    `return v` turned into `x = v` and what followed an early return moved into the other arm.
Arguments are bound by name; non-trivial arguments are first bound to fresh temporaries (single evaluation); the helper's locals are renamed apart.
Hoisting changes WHEN a helper is evaluated relative to its neighbours in the same statement - immaterial for the analyses that follow, which do not execute anything.
"""
from __future__ import annotations

import ast
import copy
from typing import Dict, List, Optional, Tuple

from .canon import _own_locals

TRANSPARENT_DECORATORS = {"numba_util.jit", "jit", "numba.jit", "staticmethod", "classmethod", "property", "profile_func", "profile.profile_func"}


def transparent(g) -> bool:
    """only decorators that do not change what a call computes (a memoising decorator such as lru_cache / cached_property does: the helper is then NOT interchangeable with its body)"""
    return all(d in TRANSPARENT_DECORATORS for d in g.decorators)


def _is_new(g, ref) -> bool:
    if not transparent(g) or (g.name.startswith("__") and g.name.endswith("__")) or g.parent is not None or g.is_classmethod:
        return False
    r = ref.get(g.module.relpath)
    if r is None:
        return False   # a whole new module: not an extraction from an anchored function
    if g.qualname in r:
        return False
    # a new function that appears while reference functions of the same scope have vanished is a rename / merge of those (e.g. two sibling kernels folded into one
    # with a sign argument), not an extraction from an anchored function: it stays a function of its own, which the rules find by its role (call sites)
    scope = g.qualname.rsplit(".", 1)[0] + "." if "." in g.qualname else ""
    cur = {h.qualname for h in g.module.all_funcs}
    for q in r:
        if q not in cur and (q.rsplit(".", 1)[0] + "." if "." in q else "") == scope and "<locals>" not in q:
            return False
    return True


_is_new_private = _is_new   # (older name)


def _body(g) -> List[ast.stmt]:
    return [s for s in g.node.body if not (isinstance(s, ast.Expr) and isinstance(s.value, ast.Constant) and isinstance(s.value.value, str))]


def _single_exit(g) -> Optional[str]:
    """'expr' (body is one return), 'tail' (one return, last statement), 'none' (no return), 'multi' (several structured returns), or None (not inlinable)"""
    body = _body(g)
    rets = [n for n in ast.walk(g.node) if isinstance(n, ast.Return)]
    bad = [n for n in ast.walk(g.node) if isinstance(n, (ast.Yield, ast.YieldFrom, ast.Await, ast.Global, ast.Nonlocal))]
    nested = [n for n in ast.walk(g.node) if isinstance(n, (ast.FunctionDef, ast.AsyncFunctionDef, ast.Lambda)) and n is not g.node]
    if bad or nested or g.vararg or g.kwarg or not body:
        return None
    if not rets:
        return "none"
    if len(rets) == 1 and body[-1] is rets[0] and rets[0].value is not None:
        return "expr" if len(body) == 1 else "tail"
    # several returns: each must sit in if / else structure only
    ok = True

    bare = [r for r in rets if r.value is None]
    proc = len(bare) == len(rets)   # a procedure: every return is a bare `return`

    def walk(stmts, inside_other):
        nonlocal ok
        for st in stmts:
            if isinstance(st, ast.Return):
                if inside_other or (st.value is None and not proc):
                    ok = False
            elif isinstance(st, ast.If):
                walk(st.body, inside_other)
                walk(st.orelse, inside_other)
            else:
                for fld in ("body", "orelse", "finalbody"):
                    b = getattr(st, fld, None)
                    if isinstance(b, list) and b and isinstance(b[0], ast.stmt):
                        walk(b, True)
                if isinstance(st, ast.Try):
                    for h in st.handlers:
                        walk(h.body, True)
    walk(body, False)
    if ok and proc:
        return "proc"
    return "multi" if ok and _all_paths_return(body) else None


def _all_paths_return(stmts) -> bool:
    if not stmts:
        return False
    last = stmts[-1]
    if isinstance(last, (ast.Return, ast.Raise)):
        return True
    if isinstance(last, ast.If):
        return _all_paths_return(last.body) and _all_paths_return(last.orelse)
    return False


def _returns_to_assign(stmts: List[ast.stmt], make) -> Optional[List[ast.stmt]]:
    """the statements with every `return v` replaced by make(v) (a list of statements) and whatever followed an `if` with a returning arm moved into the arm(s) that fall through"""
    out: List[ast.stmt] = []
    for i, st in enumerate(stmts):
        if isinstance(st, ast.Return):
            out.extend(make(st.value, st))
            return out
        if isinstance(st, ast.Raise):
            out.append(st)
            return out
        if isinstance(st, ast.If) and any(isinstance(n, ast.Return) for n in ast.walk(st)):
            rest = stmts[i + 1:]
            tb, to = _terminates_ret(st.body), _terminates_ret(st.orelse)
            b = _returns_to_assign(st.body + ([] if tb else copy.deepcopy(rest)), make)
            o = _returns_to_assign(st.orelse + ([] if to else copy.deepcopy(rest)), make)
            if b is None or o is None:
                return None
            out.append(ast.copy_location(ast.If(test=st.test, body=b or [ast.Pass()], orelse=o), st))
            return out
        if any(isinstance(n, ast.Return) for n in ast.walk(st)):
            return None
        out.append(st)
    return out


def _terminates_ret(stmts) -> bool:
    if not stmts:
        return False
    last = stmts[-1]
    if isinstance(last, (ast.Return, ast.Raise)):
        return True
    if isinstance(last, ast.If):
        return _terminates_ret(last.body) and _terminates_ret(last.orelse)
    return False


class _Subst(ast.NodeTransformer):
    def __init__(self, mapping: Dict[str, ast.expr]):
        self.m = mapping

    def visit_Name(self, n):
        if n.id in self.m:
            r = self.m[n.id]
            if isinstance(n.ctx, ast.Load):
                return copy.deepcopy(r)
            if isinstance(r, ast.Name):
                return ast.copy_location(ast.Name(id=r.id, ctx=n.ctx), n)
        return n


def inline_new_helpers(project, ref) -> int:
    helpers = {}
    for g in project.all_functions():
        if _is_new(g, ref):
            kind = _single_exit(g)
            if kind is not None:
                helpers[g.key] = (g, kind)
    project.inlined_keys = set()
    if not helpers:
        return 0
    counter = [0]
    done = 0

    def binding(c: Optional[ast.Call], g, recv: Optional[ast.expr] = None):
        """parameter -> argument expression (c None: a property read on receiver recv)"""
        m: Dict[str, ast.expr] = {}
        if c is not None:
            if any(isinstance(a, ast.Starred) for a in c.args) or any(k.arg is None for k in c.keywords):
                return None
            b, complete = project.bind(c, g)
            for prm in g.call_params + g.kwonly:
                if prm in b:
                    m[prm] = b[prm]
                elif prm in g.defaults and g.defaults[prm] is not None:
                    m[prm] = g.defaults[prm]
                else:
                    return None
            if g.cls is not None and not g.is_staticmethod and g.params:
                if not isinstance(c.func, ast.Attribute):
                    return None
                m[g.params[0]] = c.func.value
        else:
            if not g.params or len(g.params) != 1:
                return None
            m[g.params[0]] = recv
        return m

    def instantiate(g, kind, m, lineno, make=None):
        """(statements, value expression or None).  make: for 'multi', how a `return v` is rewritten (None: keep the returns)"""
        counter[0] += 1
        tag = f"_i{counter[0]}_"
        pre: List[ast.stmt] = []
        sub: Dict[str, ast.expr] = {}
        stored_params = {n.id for n in ast.walk(g.node) if isinstance(n, ast.Name) and isinstance(n.ctx, (ast.Store, ast.Del))}
        for prm, arg in m.items():
            simple = isinstance(arg, (ast.Name, ast.Constant)) or (isinstance(arg, ast.Attribute) and _pure_chain(arg))
            if simple and prm not in stored_params:
                sub[prm] = arg
            else:
                tmp = tag + prm
                pre.append(ast.Assign(targets=[ast.Name(id=tmp, ctx=ast.Store())], value=copy.deepcopy(arg), lineno=lineno))
                sub[prm] = ast.Name(id=tmp, ctx=ast.Load())
        locs, _ = _own_locals(g.node)
        comp_only = _comprehension_only_names(g.node)
        for v in locs:
            if v not in comp_only:   # a comprehension variable lives in the comprehension's own scope: it needs no renaming (and keeps the generator's text)
                sub[v] = ast.Name(id=tag + v, ctx=ast.Load())
        body = [_Subst(sub).visit(copy.deepcopy(s)) for s in _body(g)]
        val = None
        if kind in ("expr", "tail"):
            val = body[-1].value
            body = body[:-1]
        elif kind in ("multi", "proc") and make is not None:
            body = _returns_to_assign(body, make)
            if body is None:
                return None, None
        # spliced statements are positioned at the call site (a real line of the caller, and in statement order with the caller's own statements)
        for s in pre + body + ([val] if val is not None else []):
            for n in ast.walk(s):
                if isinstance(n, (ast.stmt, ast.expr, ast.excepthandler, ast.arg, ast.keyword)) or hasattr(n, "lineno"):
                    n.lineno = lineno
                    n.end_lineno = lineno
                    if not hasattr(n, "col_offset"):
                        n.col_offset = 0
                    if not hasattr(n, "end_col_offset"):
                        n.end_col_offset = 0
        return pre + body, val

    def target_of(node, f):
        """(helper, kind, binding) for a call of / a property read of a new helper, else None"""
        if isinstance(node, ast.Call):
            try:
                tg = project.resolve_call(node, f)
            except Exception:
                return None
            if len(tg) != 1 or tg[0].key not in helpers or tg[0] is f or tg[0].is_property:
                return None
            g, kind = helpers[tg[0].key]
            m = binding(node, g)
            return (g, kind, m) if m is not None else None
        if isinstance(node, ast.Attribute) and isinstance(node.ctx, ast.Load) and isinstance(node.value, ast.Name) and f.cls is not None and f.params and node.value.id == f.params[0] \
                and not f.is_staticmethod and not f.is_classmethod:
            g = f.cls.lookup(node.attr)
            if g is None or g.key not in helpers or not g.is_property or g is f:
                return None
            kind = helpers[g.key][1]
            m = binding(None, g, node.value)
            return (g, kind, m) if m is not None else None
        return None

    def candidates(expr_root, f):
        """helper uses inside one expression, outermost first; not inside lambdas / comprehensions / conditionally evaluated parts"""
        out = []

        def walk(n, cond):
            if isinstance(n, ast.Lambda):
                return
            if isinstance(n, (ast.ListComp, ast.SetComp, ast.DictComp, ast.GeneratorExp)):
                cond = True   # evaluated once per element: only a pure substitution ('expr' helpers) is possible inside
            hit = target_of(n, f) if isinstance(n, (ast.Call, ast.Attribute)) else None
            if hit is not None and (not cond or hit[1] == "expr"):
                out.append((n, hit, cond))
            if isinstance(n, ast.IfExp):
                walk(n.test, cond)
                walk(n.body, True)
                walk(n.orelse, True)
                return
            if isinstance(n, ast.BoolOp):
                for k, v in enumerate(n.values):
                    walk(v, cond or k > 0)
                return
            for ch in ast.iter_child_nodes(n):
                walk(ch, cond)
        walk(expr_root, False)
        return out

    def replace(root, old, new):
        class R(ast.NodeTransformer):
            def generic_visit(s2, n):
                for fld, val in ast.iter_fields(n):
                    if isinstance(val, list):
                        for k, x in enumerate(val):
                            if x is old:
                                val[k] = new
                            elif isinstance(x, ast.AST):
                                s2.generic_visit(x)
                    elif val is old:
                        setattr(n, fld, new)
                    elif isinstance(val, ast.AST):
                        s2.generic_visit(val)
                return n
        if root is old:
            return new
        R().generic_visit(root)
        return root

    for _round in range(4):   # helpers calling helpers
        changed = 0
        for f in list(project.all_functions()):

            def stmt_level(st, call, hit):
                """the statements replacing st when `call` (the whole value of st) is inlined; None if not possible"""
                g, kind, m = hit
                if kind == "proc" and not isinstance(st, ast.Expr):
                    return None
                if isinstance(st, ast.Return):
                    if kind == "multi":
                        body, _ = instantiate(g, kind, m, st.lineno, make=None)   # returns stay returns
                        return body
                    pre, val = instantiate(g, kind, m, st.lineno)
                    return pre + [ast.copy_location(ast.Return(value=val if val is not None else ast.Constant(value=None)), st)]
                if isinstance(st, ast.Assign):
                    if kind == "multi":
                        def make(v, at, _st=st):
                            return [ast.copy_location(ast.Assign(targets=copy.deepcopy(_st.targets), value=v), at)]
                        body, _ = instantiate(g, kind, m, st.lineno, make=make)
                        return body
                    pre, val = instantiate(g, kind, m, st.lineno)
                    st.value = val if val is not None else ast.Constant(value=None)
                    return pre + [st]
                if isinstance(st, ast.Expr):
                    if kind == "proc":
                        body, _ = instantiate(g, kind, m, st.lineno, make=lambda v, at: [])   # a bare return just ends the helper: what followed it moves into the other arm
                        return body
                    if kind == "multi":
                        body, _ = instantiate(g, kind, m, st.lineno, make=lambda v, at: [ast.copy_location(ast.Expr(value=v), at)])
                        return body
                    pre, val = instantiate(g, kind, m, st.lineno)
                    return pre + ([ast.copy_location(ast.Expr(value=val), st)] if val is not None else [])
                return None

            def block(stmts: List[ast.stmt]) -> List[ast.stmt]:
                nonlocal changed
                out: List[ast.stmt] = []
                for st in stmts:
                    for fld in ("body", "orelse", "finalbody"):
                        sub = getattr(st, fld, None)
                        if isinstance(sub, list) and sub and isinstance(sub[0], ast.stmt) and not isinstance(st, (ast.FunctionDef, ast.AsyncFunctionDef, ast.ClassDef)):
                            setattr(st, fld, block(sub))
                    if isinstance(st, ast.Try):
                        for h in st.handlers:
                            h.body = block(h.body)
                    if isinstance(st, (ast.FunctionDef, ast.AsyncFunctionDef, ast.ClassDef)):
                        out.append(st)
                        continue
                    # the header expressions of this statement
                    if isinstance(st, (ast.Assign, ast.AugAssign, ast.AnnAssign, ast.Return, ast.Expr)):
                        roots = [("value", st.value)] if getattr(st, "value", None) is not None else []
                        if isinstance(st, ast.Assign) and len(st.targets) == 1 and isinstance(st.targets[0], ast.Subscript):
                            roots.append(("_target_slice", st.targets[0].slice))   # a helper read in the index of an element store
                    elif isinstance(st, (ast.If, ast.While)):
                        roots = [("test", st.test)]
                    elif isinstance(st, ast.For):
                        roots = [("iter", st.iter)]
                    else:
                        roots = []
                    pre_all: List[ast.stmt] = []
                    replaced_stmt = None
                    for fld, root in roots:
                        guard = 0
                        while guard < 12:
                            guard += 1
                            root = st.targets[0].slice if fld == "_target_slice" else getattr(st, fld)
                            cands = candidates(root, f)
                            if not cands:
                                break
                            node, hit, cond = cands[0]
                            g, kind, m = hit
                            simple_args = all(isinstance(a, (ast.Name, ast.Constant)) or (isinstance(a, ast.Attribute) and _pure_chain(a)) for a in m.values())
                            if kind == "expr" and simple_args:
                                pre, val = instantiate(g, "expr", m, getattr(node, "lineno", st.lineno))
                                if not pre:
                                    new_root = replace(root, node, ast.copy_location(val, node))
                                    if fld == "_target_slice":
                                        st.targets[0].slice = new_root
                                    else:
                                        setattr(st, fld, new_root)
                                    changed += 1
                                    continue
                            if node is root and fld == "value" and isinstance(st, (ast.Return, ast.Assign, ast.Expr)) and not isinstance(st, ast.While):
                                new = stmt_level(st, node, hit)
                                if new is not None:
                                    replaced_stmt = new
                                    changed += 1
                                break
                            if cond or isinstance(st, ast.While):
                                break   # conditionally / repeatedly evaluated: leave as written
                            # hoist into a temporary right before the statement
                            counter[0] += 1
                            tmp = f"_i{counter[0]}_ret"
                            asg = ast.Assign(targets=[ast.Name(id=tmp, ctx=ast.Store())], value=node, lineno=st.lineno)
                            new = stmt_level(asg, node, hit)
                            if new is None:
                                break
                            pre_all.extend(new)
                            new_root = replace(root, node, ast.copy_location(ast.Name(id=tmp, ctx=ast.Load()), node))
                            if fld == "_target_slice":
                                st.targets[0].slice = new_root
                            else:
                                setattr(st, fld, new_root)
                            changed += 1
                        if replaced_stmt is not None:
                            break
                    out.extend(pre_all)
                    if replaced_stmt is not None:
                        out.extend(replaced_stmt)
                    else:
                        out.append(st)
                return out
            f.node.body = block(f.node.body)
        done += changed
        if not changed:
            break
    if done:
        for m in project.modules.values():
            ast.fix_missing_locations(m.tree)
    # helpers whose every use was spliced back no longer have call sites: rules that go through "all functions" skip them (their code is judged where it now stands)
    still_used = set()
    for f in project.all_functions():
        for n in f.body_nodes():
            nm = None
            if isinstance(n, ast.Call):
                nm = n.func.attr if isinstance(n.func, ast.Attribute) else (n.func.id if isinstance(n.func, ast.Name) else None)
            elif isinstance(n, ast.Attribute) and isinstance(n.ctx, ast.Load):
                nm = n.attr
            if nm:
                still_used.add(nm)
    project.inlined_keys = {k for k, (g, _) in helpers.items() if g.name not in still_used}
    return done


def _comprehension_only_names(f: ast.AST) -> set:
    """names that are bound in f only as targets of comprehensions"""
    comp, other = set(), set()
    for n in ast.walk(f):
        if isinstance(n, ast.comprehension):
            comp |= {m.id for m in ast.walk(n.target) if isinstance(m, ast.Name)}
    comp_target_ids = {id(m) for n in ast.walk(f) if isinstance(n, ast.comprehension) for m in ast.walk(n.target)}
    for n in ast.walk(f):
        if isinstance(n, ast.Name) and isinstance(n.ctx, (ast.Store, ast.Del)) and id(n) not in comp_target_ids:
            other.add(n.id)
    return comp - other


def _pure_chain(e) -> bool:
    while isinstance(e, ast.Attribute):
        e = e.value
    return isinstance(e, ast.Name)


def inline_new_closures(project, ref) -> int:
    """N11 for local helpers: a nested `def h(a, ..): return <expr>` that is not in the reference snapshot, defined as a plain statement of the enclosing
    function's body and used there only by being called with plain names / constants, is replaced by its expression at every call (a closure reads the
    enclosing variables at call time, which is exactly what the substituted expression does), and the definition is removed."""
    done = 0
    for m in project.modules.values():
        r = ref.get(m.relpath)
        if r is None:
            continue
        for g in list(m.all_funcs):
            f = g.parent
            if f is None or g.qualname in r or g.node not in f.node.body or g.node.decorator_list or g.vararg or g.kwarg or g.kwonly:
                continue
            kind_g = _single_exit(g)
            a = g.node.args
            if a.defaults or a.kw_defaults:
                continue
            if kind_g == "expr":
                expr = [s_ for s_ in g.node.body if isinstance(s_, ast.Return)][0].value
            elif kind_g == "tail":
                # straight-line `t = e1; u = e2(t); return r(t, u)`: the returned expression with the closure's own single-assignment temporaries substituted
                body_g = _body(g)
                env_g: Dict[str, ast.expr] = {}
                ok_g = True
                for st_ in body_g[:-1]:
                    if isinstance(st_, ast.Assign) and len(st_.targets) == 1 and isinstance(st_.targets[0], ast.Name) and st_.targets[0].id not in env_g and st_.targets[0].id not in g.params:
                        env_g[st_.targets[0].id] = _Subst(env_g).visit(copy.deepcopy(st_.value))
                    else:
                        ok_g = False
                if not ok_g:
                    continue
                expr = _Subst(env_g).visit(copy.deepcopy(body_g[-1].value))
            else:
                continue
            if any(isinstance(n, ast.Name) and isinstance(n.ctx, ast.Store) for n in ast.walk(expr)):
                continue
            uses = [n for n in ast.walk(f.node) if isinstance(n, ast.Name) and n.id == g.name and not any(n is x for x in ast.walk(g.node))]
            calls = [n for n in ast.walk(f.node) if isinstance(n, ast.Call) and isinstance(n.func, ast.Name) and n.func.id == g.name and not any(n is x for x in ast.walk(g.node))]
            ok = len(uses) == len(calls) and bool(calls)
            binds = {}
            for c in calls:
                if c.keywords and any(k.arg is None for k in c.keywords) or any(isinstance(x, ast.Starred) for x in c.args) or len(c.args) > len(g.params):
                    ok = False
                    break
                b = dict(zip(g.params, c.args))
                for k in c.keywords:
                    if k.arg in b or k.arg not in g.params:
                        ok = False
                    b[k.arg] = k.value
                if set(b) != set(g.params) or not all(isinstance(v, (ast.Name, ast.Constant)) or (isinstance(v, ast.Attribute) and _pure_chain(v)) or isinstance(v, ast.Subscript) for v in b.values()):
                    ok = False
                binds[id(c)] = b
            if not ok:
                continue

            class R(ast.NodeTransformer):
                def visit_Call(s2, n):
                    s2.generic_visit(n)
                    if id(n) in binds:
                        return ast.copy_location(_Subst(binds[id(n)]).visit(copy.deepcopy(expr)), n)
                    return n
            f.node.body = [R().visit(st) for st in f.node.body if st is not g.node]
            m.all_funcs.remove(g)
            project._func_by_node.pop(id(g.node), None)
            done += 1
        if done:
            ast.fix_missing_locations(m.tree)
    return done
