"""E4 (part 1) - Laurent polynomials with rational coefficients over structured atoms, in canonical form.

Atom kinds (hashable tuples):
    ('s', name)                      scalar / whole-array symbol
    ('i', name, (idx0, idx1, ...))   element of array `name` at index polys
    ('f', fname, (arg0, arg1, ...))  uninterpreted application (cos, sin, sqrt, fdiv, inv, ...)
The imaginary unit is the atom ('s', 'J') with J*J reduced to -1.
Equality of Poly objects is syntactic equality of canonical forms."""
from __future__ import annotations

from fractions import Fraction
from typing import Dict, Tuple, Iterable, Optional, Callable

J_ATOM = ("s", "J")


def _akey(a) -> str:
    return atom_repr(a)


_repr_cache: Dict[tuple, str] = {}


def atom_repr(a) -> str:
    r = _repr_cache.get(a)
    if r is not None:
        return r
    k = a[0]
    if k == "s":
        r = a[1]
    elif k == "i":
        r = f"{a[1]}[{', '.join(repr(x) for x in a[2])}]"
    elif k == "f":
        r = f"{a[1]}({', '.join(repr(x) for x in a[2])})"
    else:
        r = str(a)
    _repr_cache[a] = r
    return r


class Poly:
    __slots__ = ("t", "_h", "_r")

    def __init__(self, terms: Optional[Dict[tuple, Fraction]] = None):
        self.t = {k: v for k, v in (terms or {}).items() if v != 0}
        self._h = None
        self._r = None

    # ---- constructors
    @staticmethod
    def const(c) -> "Poly":
        if isinstance(c, float):
            c = Fraction(repr(c)) if c == c and abs(c) != float("inf") else None
            if c is None:
                raise ValueError("non-finite constant")
        return Poly({(): Fraction(c)})

    @staticmethod
    def atom(a: tuple) -> "Poly":
        return Poly({((a, 1),): Fraction(1)})

    @staticmethod
    def sym(name: str) -> "Poly":
        return Poly.atom(("s", name))

    @staticmethod
    def fn(fname: str, *args: "Poly") -> "Poly":
        return Poly.atom(("f", fname, tuple(args)))

    @staticmethod
    def elem(name: str, *idx: "Poly") -> "Poly":
        return Poly.atom(("i", name, tuple(idx)))

    # ---- algebra
    def __add__(a, b):
        b = as_poly(b)
        t = dict(a.t)
        for k, v in b.t.items():
            t[k] = t.get(k, 0) + v
        return Poly(t)

    __radd__ = __add__

    def __neg__(a):
        return Poly({k: -v for k, v in a.t.items()})

    def __sub__(a, b):
        return a + (-as_poly(b))

    def __rsub__(a, b):
        return as_poly(b) - a

    @staticmethod
    def _mulmono(m1, m2):
        d = dict(m1)
        for s_, e in m2:
            d[s_] = d.get(s_, 0) + e
        sign = 1
        if J_ATOM in d:
            e = d[J_ATOM]
            if e >= 2 or e < 0:
                q, r = divmod(e, 4)
                # J^r with r in 0..3
                if r >= 2:
                    sign = -1
                    r -= 2
                d[J_ATOM] = r
        items = tuple(sorted(((k, v) for k, v in d.items() if v != 0), key=lambda kv: _akey(kv[0])))
        return items, sign

    def __mul__(a, b):
        b = as_poly(b)
        t: Dict[tuple, Fraction] = {}
        for k1, v1 in a.t.items():
            for k2, v2 in b.t.items():
                k, sg = Poly._mulmono(k1, k2)
                t[k] = t.get(k, 0) + sg * v1 * v2
        return Poly(t)

    __rmul__ = __mul__

    def is_monomial(a) -> bool:
        return len(a.t) == 1

    def inverse(a) -> "Poly":
        """Exact for single-term polynomials; otherwise the uninterpreted atom inv(p)."""
        if len(a.t) == 1:
            (k, v), = a.t.items()
            if any(at == J_ATOM for at, _ in k):
                return Poly.fn("inv", a)
            return Poly({tuple((s_, -e) for s_, e in k): 1 / v})
        if not a.t:
            raise ZeroDivisionError
        return Poly.fn("inv", a)

    def __truediv__(a, b):
        return a * as_poly(b).inverse()

    def __rtruediv__(a, b):
        return as_poly(b) * a.inverse()

    def __pow__(a, n: int):
        if n < 0:
            return (a.inverse()) ** (-n)
        r = Poly.const(1)
        for _ in range(n):
            r = r * a
        return r

    # ---- inspection
    def is_const(a) -> bool:
        return all(k == () for k in a.t)

    def const_value(a) -> Optional[Fraction]:
        if not a.t:
            return Fraction(0)
        if a.is_const():
            return a.t[()]
        return None

    def atoms(a) -> set:
        out = set()
        for k in a.t:
            for at, _ in k:
                out.add(at)
        return out

    def all_atoms(a) -> set:
        """atoms, recursively through index / function arguments"""
        out = set()
        stack = list(a.atoms())
        while stack:
            at = stack.pop()
            if at in out:
                continue
            out.add(at)
            if at[0] in ("i", "f"):
                for arg in at[2]:
                    if isinstance(arg, Poly):
                        stack.extend(arg.atoms())
        return out

    def coeff(a, atom: tuple, exp: int = 1) -> "Poly":
        """The polynomial multiplying atom**exp (terms where the atom appears with exactly that exponent)."""
        t = {}
        for k, v in a.t.items():
            d = dict(k)
            if d.get(atom, 0) == exp:
                d.pop(atom, None)
                kk = tuple(sorted(d.items(), key=lambda kv: _akey(kv[0])))
                t[kk] = t.get(kk, 0) + v
        return Poly(t)

    def degree_in(a, pred: Callable[[tuple], bool]) -> Tuple[int, int]:
        """(min, max) total degree over terms, counting atoms that satisfy pred (top level only)."""
        degs = [sum(e for at, e in k if pred(at)) for k in a.t] or [0]
        return min(degs), max(degs)

    def subst(a, f: Callable[[tuple], Optional["Poly"]]) -> "Poly":
        """Substitute atoms (recursively inside indices / function arguments). f returns a Poly or None (keep)."""
        out = Poly()
        for k, v in a.t.items():
            term = Poly.const(v)
            for at, e in k:
                rep = f(at)
                if rep is None and at[0] in ("i", "f"):
                    newargs = tuple(x.subst(f) if isinstance(x, Poly) else x for x in at[2])
                    if newargs != at[2]:
                        at2 = (at[0], at[1], newargs)
                        rep = simplify_atom(at2)
                    # else unchanged
                p = rep if rep is not None else Poly.atom(at)
                term = term * (p ** e if e > 0 else (p.inverse()) ** (-e))
            out = out + term
        return out

    def __eq__(a, b):
        return isinstance(b, Poly) and a.t == b.t

    def __hash__(a):
        if a._h is None:
            a._h = hash(frozenset(a.t.items()))
        return a._h

    def __repr__(a):
        if a._r is not None:
            return a._r
        if not a.t:
            a._r = "0"
            return a._r
        out = []
        for k, v in sorted(a.t.items(), key=lambda kv: [(_akey(s_), e) for s_, e in kv[0]]):
            m = "*".join((f"{atom_repr(s_)}^{e}" if e != 1 else atom_repr(s_)) for s_, e in k)
            if m:
                c = "" if v == 1 else ("-" if v == -1 else f"{v}*")
                out.append(f"{c}{m}")
            else:
                out.append(f"{v}")
        a._r = " + ".join(out).replace("+ -", "- ")
        return a._r


def as_poly(x) -> Poly:
    if isinstance(x, Poly):
        return x
    if isinstance(x, bool):
        return Poly.const(int(x))
    if isinstance(x, (int, Fraction, float)):
        return Poly.const(x)
    raise TypeError(f"not a polynomial: {x!r}")


def simplify_atom(at: tuple) -> Poly:
    """Re-normalise a function atom after substitution (constant folding of a few pure functions)."""
    if at[0] == "f":
        name, args = at[1], at[2]
        if name == "fdiv" and len(args) == 2:
            a, b = args
            ca, cb = a.const_value(), b.const_value()
            if ca is not None and cb is not None and cb != 0:
                return Poly.const((ca // cb))
        if name == "int" and len(args) == 1:
            c = args[0].const_value()
            if c is not None:
                return Poly.const(int(c))
        if name == "neg" and len(args) == 1:
            return -args[0]
    return Poly.atom(at)


ZERO = Poly()
ONE = Poly.const(1)
