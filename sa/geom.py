"""E6 - GEOM: geometry-triple forwarding and point / vector kinds.

A *coordinate-origin callable* is any project callable with a parameter `origin` / `origins` whose default is a tuple of zeros
(constructors, classmethod constructors and the util functions that turn indices into scaled coordinates or back).

G1 (forwarding).  At a call of such a callable, if the coordinate origin is in scope - the caller itself has an `origin(s)` parameter, or an
     argument is rooted at the geometry (`.pixel_scales`, `.shape_native`, `.shape`, `.mask`, `.pixel_scale`) of an object - then `origin` must be bound.
     Omission means the default (0.0, 0.0): the result forgets where its parent was.
G2 (kind).  A bound origin must be POINT-kinded: `X.origin`, an `origin(s)` parameter, `X.mask_centre`, or a tuple whose k-th element is built from
     component k of a point plus / minus component-k vectors (axis purity).  A literal origin is allowed only next to literal pixel scales (pixel-unit computations).
"""
from __future__ import annotations

import ast
from typing import Dict, List, Optional, Set, Tuple

from .model import Project, FuncInfo, norm_text

GEO_ATTRS = ("pixel_scales", "shape_native", "shape", "mask", "pixel_scale", "shape_slim", "geometry", "extent")
POINT_ATTRS = ("origin", "mask_centre", "origins")


def origin_table(p: Project) -> Dict[str, str]:
    """callable key -> name of its coordinate-origin parameter"""
    out = {}
    for f in p.all_functions():
        if f.parent is not None:
            continue
        for o in ("origin", "origins"):
            if o in f.all_params:
                d = f.defaults.get(o)
                if d is None:
                    if f.name == "__init__" or o in f.params:
                        # no default: still a coordinate origin if annotated / used as such (Geometry classes); keep
                        out[f.key] = o
                    continue
                if isinstance(d, ast.Tuple) and all(isinstance(e, ast.Constant) and isinstance(e.value, (int, float)) and float(e.value) == 0.0 for e in d.elts):
                    out[f.key] = o
    return out


def geometry_roots(e: ast.expr) -> List[str]:
    roots = []
    for n in ast.walk(e):
        if isinstance(n, ast.Attribute) and n.attr in GEO_ATTRS and not (isinstance(n.value, ast.Name) and n.value.id in ("np", "numpy")):
            roots.append(norm_text(n))
    return roots


def point_kind(e: ast.expr, f: FuncInfo, _depth: int = 0) -> Tuple[bool, str]:
    """(is point-kinded, explanation)"""
    if isinstance(e, ast.Name):
        if e.id in ("origin", "origins") and e.id in f.all_params:
            return True, "origin parameter"
        if _depth < 3:
            asg = [n for n in f.body_nodes() if isinstance(n, ast.Assign) and len(n.targets) == 1 and isinstance(n.targets[0], ast.Name) and n.targets[0].id == e.id]
            if len(asg) == 1:
                return point_kind(asg[0].value, f, _depth + 1)
        return False, f"name '{e.id}' is not a coordinate origin"
    if isinstance(e, ast.Attribute):
        if e.attr in POINT_ATTRS:
            return True, norm_text(e)
        return False, f"attribute .{e.attr} is not a point (expected .origin / .mask_centre)"
    if isinstance(e, ast.Tuple):
        for k, el in enumerate(e.elts):
            ok, why = component_kind(el, k, f)
            if not ok:
                return False, f"element {k}: {why}"
        return True, "tuple of point components"
    return False, f"expression `{norm_text(e)[:60]}` is not point-kinded"


def _terms(e: ast.expr, sign: int = 1) -> List[Tuple[int, ast.expr]]:
    if isinstance(e, ast.BinOp) and isinstance(e.op, (ast.Add, ast.Sub)):
        return _terms(e.left, sign) + _terms(e.right, sign if isinstance(e.op, ast.Add) else -sign)
    if isinstance(e, ast.UnaryOp) and isinstance(e.op, ast.USub):
        return _terms(e.operand, -sign)
    return [(sign, e)]


def _coord_axis(name: str, f: FuncInfo) -> Optional[int]:
    """axis of a local coordinate value: assigned from a column `[:, k]` of a coordinate array, or unpacked from a (y_min, y_max, x_min, x_max) tuple"""
    for n in f.body_nodes():
        if isinstance(n, ast.Assign) and len(n.targets) == 1:
            t = n.targets[0]
            if isinstance(t, ast.Name) and t.id == name:
                ks = {s_.slice.elts[-1].value for s_ in ast.walk(n.value) if isinstance(s_, ast.Subscript) and isinstance(s_.slice, ast.Tuple) and isinstance(s_.slice.elts[-1], ast.Constant)
                      and isinstance(s_.slice.elts[-1].value, int)}
                if len(ks) == 1:
                    return ks.pop()
            if isinstance(t, ast.Tuple) and len(t.elts) == 4 and all(isinstance(x, ast.Name) for x in t.elts):
                names = [x.id for x in t.elts]
                if name in names:
                    return names.index(name) // 2
    return None


def _midpoint(e: ast.expr):
    """(A + B) / 2  or  0.5 * (A + B)  ->  (A, B)"""
    inner = None
    if isinstance(e, ast.BinOp) and isinstance(e.op, ast.Div) and isinstance(e.right, ast.Constant) and e.right.value in (2, 2.0):
        inner = e.left
    elif isinstance(e, ast.BinOp) and isinstance(e.op, ast.Mult):
        for a, b in ((e.left, e.right), (e.right, e.left)):
            if isinstance(a, ast.Constant) and a.value == 0.5:
                inner = b
    if isinstance(inner, ast.BinOp) and isinstance(inner.op, ast.Add) and isinstance(inner.left, ast.Name) and isinstance(inner.right, ast.Name):
        return inner.left.id, inner.right.id
    return None


def component_kind(e: ast.expr, k: int, f: FuncInfo) -> Tuple[bool, str]:
    """element k of an origin tuple: exactly one +POINT[k] term, every other term a component-k quantity or a literal;
    or the midpoint of two coordinates of axis k"""
    mp = _midpoint(e)
    if mp is not None:
        axes = [_coord_axis(nm, f) for nm in mp]
        bad = [nm for nm, a in zip(mp, axes) if a is not None and a != k]
        if bad:
            return False, f"midpoint built from `{bad[0]}`, a coordinate of the other axis"
        return True, "midpoint of two coordinates"
    pts = 0
    for sign, t in _terms(e):
        if isinstance(t, ast.Constant) and isinstance(t.value, (int, float)):
            continue
        if isinstance(t, ast.Name):
            # a local unpacked from a pair (`dy, dx = self.offset`) is that pair's component
            from . import wire
            t = wire.inline_locals(f, t, unpack=True)
        if isinstance(t, ast.Subscript) and isinstance(t.slice, ast.Constant) and isinstance(t.slice.value, int):
            if t.slice.value != k:
                return False, f"`{norm_text(t)}` is component {t.slice.value} used in position {k} (axes mixed)"
            base = t.value
            if (isinstance(base, ast.Attribute) and base.attr in POINT_ATTRS) or (isinstance(base, ast.Name) and base.id in ("origin", "origins")):
                if sign != 1:
                    return False, f"point component `{norm_text(t)}` enters with a minus sign"
                pts += 1
            continue
        return False, f"term `{norm_text(t)[:50]}` is not a component-{k} quantity"
    if pts != 1:
        return False, f"{pts} point components (a point is exactly one origin component plus displacements)"
    return True, "ok"


def literal_pixel_units(bind: Dict[str, ast.expr]) -> bool:
    ps = bind.get("pixel_scales")
    return ps is not None and isinstance(ps, ast.Tuple) and all(isinstance(x, ast.Constant) for x in ps.elts)


def scan(p: Project, skip_modules=("autoarray.fixtures",)) -> List[dict]:
    """every call of a coordinate-origin callable, with the facts the rules need"""
    table = origin_table(p)
    sites = []
    for f in p.all_functions():
        if f.module.name in skip_modules or ".mock" in f.module.name or f.module.name.endswith(".mock"):
            continue
        if f.parent is not None and f.name != "wrapper":
            continue
        for c in f.calls():
            tg = p.resolve_call(c, f)
            if not tg or tg[0].key not in table:
                continue
            t = tg[0]
            oname = table[t.key]
            b, complete = Project.bind(c, t)
            roots = []
            for k, v in b.items():
                if k != oname:
                    roots.extend(geometry_roots(v))
            own_origin = [o for o in ("origin", "origins") if o in f.all_params and f.key in table]
            sites.append({"func": f, "call": c, "callee": t, "oname": oname, "bind": b, "complete": complete, "roots": sorted(set(roots)), "own_origin": own_origin,
                          "bound": b.get(oname)})
    return sites
