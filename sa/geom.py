"""E6 - GEOM: geometry-triple forwarding and point / vector kinds.

A *coordinate-origin callable* is any project callable with a parameter `origin` / `origins` whose default is a tuple of zeros
(constructors, classmethod constructors and the util functions that turn indices into scaled coordinates or back).

G1 (forwarding).  At a call of such a callable, if the coordinate origin is in scope - the caller itself has an `origin(s)` parameter, or an
     argument is rooted at the geometry (`.pixel_scales`, `.shape_native`, `.shape`, `.mask`, `.pixel_scale`) of an object - then `origin` must be bound.
     Omission means the default (0.0, 0.0): the result forgets where its parent was.
G2 (kind).  A bound origin must be POINT-kinded: `X.origin`, an `origin(s)` parameter, `X.mask_centre`, or a tuple whose k-th element is built from
     component k of a point plus / minus component-k vectors (axis purity).  A literal origin is allowed only next to literal pixel scales (pixel-unit computations).
"""
from __future__ import annotations

import ast
from typing import Dict, List, Optional, Set, Tuple

from .model import Project, FuncInfo, norm_text

GEO_ATTRS = ("pixel_scales", "shape_native", "shape", "mask", "pixel_scale", "shape_slim", "geometry", "extent")
POINT_ATTRS = ("origin", "mask_centre", "origins")


def origin_table(p: Project) -> Dict[str, str]:
    """callable key -> name of its coordinate-origin parameter"""
    out = {}
    for f in p.all_functions():
        if f.parent is not None:
            continue
        for o in ("origin", "origins"):
            if o in f.all_params:
                d = f.defaults.get(o)
                if d is None:
                    if f.name == "__init__" or o in f.params:
                        # no default: still a coordinate origin if annotated / used as such (Geometry classes); keep
                        out[f.key] = o
                    continue
                if isinstance(d, ast.Tuple) and all(isinstance(e, ast.Constant) and isinstance(e.value, (int, float)) and float(e.value) == 0.0 for e in d.elts):
                    out[f.key] = o
    return out


def geometry_roots(e: ast.expr) -> List[str]:
    """geometry attributes read from an object that is in scope under a name (a parameter, self, a loop variable); `<call>(...).shape` - the shape of a freshly
    computed plain array - is not the parent's geometry.  Callers pass the expression with single-assignment temporaries already read through, so that the answer
    does not depend on whether an intermediate value was given a name."""
    roots = []
    for n in ast.walk(e):
        if isinstance(n, ast.Attribute) and n.attr in GEO_ATTRS and not (isinstance(n.value, ast.Name) and n.value.id in ("np", "numpy")):
            b = n.value
            while isinstance(b, (ast.Attribute, ast.Subscript)):
                b = b.value
            if isinstance(b, ast.Name):
                roots.append(norm_text(n))
    return roots


def point_kind(e: ast.expr, f: FuncInfo, _depth: int = 0) -> Tuple[bool, str]:
    """(is point-kinded, explanation)"""
    if isinstance(e, ast.Name):
        if e.id in ("origin", "origins") and e.id in f.all_params:
            return True, "origin parameter"
        if _depth < 3:
            asg = [n for n in f.body_nodes() if isinstance(n, ast.Assign) and len(n.targets) == 1 and isinstance(n.targets[0], ast.Name) and n.targets[0].id == e.id]
            if len(asg) == 1:
                return point_kind(asg[0].value, f, _depth + 1)
        if _depth < 3:
            from . import wire as _w
            e2 = _w.inline_locals(f, e, unpack=True)
            if not isinstance(e2, ast.Name):
                return point_kind(e2, f, _depth + 1)
        return False, f"name '{e.id}' is not a coordinate origin"
    if isinstance(e, ast.Attribute):
        if e.attr in POINT_ATTRS:
            return True, norm_text(e)
        if expr_is_point(f, e):
            return True, f"{norm_text(e)}: a member computed as a coordinate of the parent's frame"
        return False, f"attribute .{e.attr} is not a point (expected .origin / .mask_centre)"
    if isinstance(e, ast.Tuple):
        for k, el in enumerate(e.elts):
            ok, why = component_kind(el, k, f)
            if not ok:
                return False, f"element {k}: {why}"
        return True, "tuple of point components"
    return False, f"expression `{norm_text(e)[:60]}` is not point-kinded"


def _terms(e: ast.expr, sign: int = 1) -> List[Tuple[int, ast.expr]]:
    if isinstance(e, ast.BinOp) and isinstance(e.op, (ast.Add, ast.Sub)):
        return _terms(e.left, sign) + _terms(e.right, sign if isinstance(e.op, ast.Add) else -sign)
    if isinstance(e, ast.UnaryOp) and isinstance(e.op, ast.USub):
        return _terms(e.operand, -sign)
    return [(sign, e)]


def _coord_axis(name: str, f: FuncInfo) -> Optional[int]:
    """axis of a local coordinate value: assigned from a column `[:, k]` of a coordinate array, or unpacked from a (y_min, y_max, x_min, x_max) tuple"""
    for n in f.body_nodes():
        if isinstance(n, ast.Assign) and len(n.targets) == 1:
            t = n.targets[0]
            if isinstance(t, ast.Name) and t.id == name:
                ks = {s_.slice.elts[-1].value for s_ in ast.walk(n.value) if isinstance(s_, ast.Subscript) and isinstance(s_.slice, ast.Tuple) and isinstance(s_.slice.elts[-1], ast.Constant)
                      and isinstance(s_.slice.elts[-1].value, int)}
                if len(ks) == 1:
                    return ks.pop()
            if isinstance(t, ast.Tuple) and len(t.elts) == 4 and all(isinstance(x, ast.Name) for x in t.elts):
                names = [x.id for x in t.elts]
                if name in names:
                    return names.index(name) // 2
    return None


def _midpoint(e: ast.expr):
    """(A + B) / 2  or  0.5 * (A + B)  ->  (A, B)"""
    inner = None
    if isinstance(e, ast.BinOp) and isinstance(e.op, ast.Div) and isinstance(e.right, ast.Constant) and e.right.value in (2, 2.0):
        inner = e.left
    elif isinstance(e, ast.BinOp) and isinstance(e.op, ast.Mult):
        for a, b in ((e.left, e.right), (e.right, e.left)):
            if isinstance(a, ast.Constant) and a.value == 0.5:
                inner = b
    if isinstance(inner, ast.BinOp) and isinstance(inner.op, ast.Add) and isinstance(inner.left, ast.Name) and isinstance(inner.right, ast.Name):
        return inner.left.id, inner.right.id
    return None


# utils whose result is a coordinate of the parent's frame (it moves by d when the origin moves by d): established by C12.covariance, which analyses each of them
COORD_UTILS = ("autoarray.geometry.geometry_util:scaled_coordinates_2d_from", "autoarray.geometry.geometry_util:grid_scaled_2d_slim_from",
               "autoarray.structures.grids.grid_2d_util:grid_2d_slim_via_mask_from", "autoarray.geometry.geometry_util:central_scaled_coordinate_2d_from")
PROJECT = None   # set by scan()


def expr_is_point(f: FuncInfo, e: ast.expr, depth: int = 0) -> bool:
    """kind inference for a value that is not literally `.origin`: a member of the same object whose every return is a coordinate (a call of a coordinate util, of a
    method that returns one, or another such member).  `self.zoom_offset_scaled` is a displacement as long as it is scales x pixels; it becomes a POINT the moment it
    is computed by `geometry.scaled_coordinates_2d_from`, and adding the origin to it then counts the origin twice."""
    p = PROJECT
    if p is None or depth > 3:
        return False
    from . import wire
    if isinstance(e, ast.Attribute):
        if e.attr in POINT_ATTRS:
            return True
        if isinstance(e.value, ast.Name) and e.value.id == "self" and f.cls is not None:
            m = f.cls.lookup(e.attr)
            if m is not None and any(norm_text(d) in ("property", "cached_property", "functools.cached_property") or norm_text(d).endswith("cached_property") for d in m.node.decorator_list):
                rets = wire.returns_of(m)
                return bool(rets) and all(expr_is_point(m, wire.inline_locals(m, r.value), depth + 1) for r in rets)
        return False
    if isinstance(e, ast.Call):
        for t in p.resolve_call(e, f):
            if t.key in COORD_UTILS:
                # a coordinate of the frame whose origin is handed in: with the origin argument left out (or a literal) the result is measured from (0, 0) - a
                # displacement from the array centre, not a point of the parent's frame
                b_, _ = Project.bind(e, t)
                o_ = b_.get("origin", b_.get("origins"))
                return o_ is not None and point_kind(o_, f, depth + 1)[0]
            rets = wire.returns_of(t)
            if rets and all(expr_is_point(t, wire.inline_locals(t, r.value), depth + 1) for r in rets):
                return True
    return False


def component_kind(e: ast.expr, k: int, f: FuncInfo) -> Tuple[bool, str]:
    """element k of an origin tuple: exactly one +POINT[k] term, every other term a component-k quantity or a literal;
    or the midpoint of two coordinates of axis k"""
    # a midpoint written out over the coordinate columns themselves (temporaries, unpacked tuples and new helpers read through):  (min(G[:, k]) - b + max(G[:, k]) + b) / 2
    from . import wire as _w
    e_in = _w.inline_locals(f, e, unpack=True) if isinstance(e, (ast.Name, ast.Subscript)) else e
    half = None
    if isinstance(e_in, ast.BinOp) and isinstance(e_in.op, ast.Div) and isinstance(e_in.right, ast.Constant) and e_in.right.value in (2, 2.0):
        half = e_in.left
    elif isinstance(e_in, ast.BinOp) and isinstance(e_in.op, ast.Mult):
        for a_, b_ in ((e_in.left, e_in.right), (e_in.right, e_in.left)):
            if isinstance(a_, ast.Constant) and a_.value == 0.5:
                half = b_
    if half is not None and isinstance(half, ast.BinOp) and isinstance(half.op, ast.Add):
        cols = [s_.slice.elts[-1].value for s_ in ast.walk(half) if isinstance(s_, ast.Subscript) and isinstance(s_.slice, ast.Tuple) and len(s_.slice.elts) == 2
                and isinstance(s_.slice.elts[0], ast.Slice) and isinstance(s_.slice.elts[-1], ast.Constant) and isinstance(s_.slice.elts[-1].value, int)]
        if cols:
            if all(c_ == k for c_ in cols):
                return True, "midpoint of the extreme coordinates of its own axis"
            return False, f"midpoint built from column {sorted(set(cols) - {k})[0]} of the coordinates, the other axis"
    mp = _midpoint(e)
    if mp is not None:
        axes = [_coord_axis(nm, f) for nm in mp]
        bad = [nm for nm, a in zip(mp, axes) if a is not None and a != k]
        if bad:
            return False, f"midpoint built from `{bad[0]}`, a coordinate of the other axis"
        return True, "midpoint of two coordinates"
    pts = 0
    for sign, t in _terms(e):
        if isinstance(t, ast.Constant) and isinstance(t.value, (int, float)):
            continue
        if isinstance(t, ast.Name):
            # a local unpacked from a pair (`dy, dx = self.offset`) is that pair's component
            from . import wire
            t = wire.inline_locals(f, t, unpack=True)
        if isinstance(t, ast.Subscript) and isinstance(t.slice, ast.Constant) and isinstance(t.slice.value, int):
            if t.slice.value != k:
                return False, f"`{norm_text(t)}` is component {t.slice.value} used in position {k} (axes mixed)"
            base = t.value
            if (isinstance(base, ast.Attribute) and base.attr in POINT_ATTRS) or (isinstance(base, ast.Name) and base.id in ("origin", "origins")) or expr_is_point(f, base):
                if sign != 1:
                    return False, f"point component `{norm_text(t)}` enters with a minus sign"
                pts += 1
            continue
        return False, f"term `{norm_text(t)[:50]}` is not a component-{k} quantity"
    if pts != 1:
        return False, f"{pts} point components (a point is exactly one origin component plus displacements)"
    return True, "ok"


def literal_pixel_units(bind: Dict[str, ast.expr]) -> bool:
    ps = bind.get("pixel_scales")
    return ps is not None and isinstance(ps, ast.Tuple) and all(isinstance(x, ast.Constant) for x in ps.elts)


def scan(p: Project, skip_modules=("autoarray.fixtures",)) -> List[dict]:
    """every call of a coordinate-origin callable, with the facts the rules need"""
    global PROJECT
    PROJECT = p
    table = origin_table(p)
    sites = []
    for f in p.all_functions():
        if f.module.name in skip_modules or ".mock" in f.module.name or f.module.name.endswith(".mock"):
            continue
        # (nested functions are scanned too: a local helper that rebuilds a structure from the enclosing function's parent drops the origin just the same)
        for c in f.calls():
            tg = p.resolve_call(c, f)
            if not tg or tg[0].key not in table:
                continue
            t = tg[0]
            oname = table[t.key]
            b, complete = Project.bind(c, t)
            roots = []
            for k, v in b.items():
                if k != oname:
                    from . import wire
                    roots.extend(geometry_roots(wire.inline_locals(f, v)))
            own_origin = [o for o in ("origin", "origins") if o in f.all_params and f.key in table]
            sites.append({"func": f, "call": c, "callee": t, "oname": oname, "bind": b, "complete": complete, "roots": sorted(set(roots)), "own_origin": own_origin,
                          "bound": b.get(oname)})
    return sites
