"""./check <Cxx> [--tier quick|thorough] [--replay path]   (exit 0 ok / 1 VIOLATION / 2 ANALYSIS-ERROR)"""
from __future__ import annotations

import argparse
import importlib
import json
import os
import sys
import time
import traceback

from .model import Project, AnchorMissing, AnalysisError, REPO
from .report import Ctx, finish


def run_rules(pid: str, tier: str, project: Project) -> Ctx:
    ctx = Ctx(pid, tier, project)
    mod = importlib.import_module(f"sa.rules.{pid}")
    try:
        mod.run(ctx)
    except AnchorMissing as e:
        ctx.error(f"anchor vanished: {e}")
    except AnalysisError as e:
        ctx.error(f"analysis error: {e}")
    ctx.stats.setdefault("modules_parsed", len(project.modules))
    ctx.stats.setdefault("functions", len(project.all_functions()))
    ctx.stats.setdefault("classes", len(project.all_classes()))
    return ctx


def _control_worker(args):
    pid, idx = args
    from . import controls
    return controls.run_control(pid, idx)


def main(argv=None) -> int:
    ap = argparse.ArgumentParser()
    ap.add_argument("pid")
    ap.add_argument("--tier", default=os.environ.get("VERIF_TIER", "quick"), choices=["quick", "thorough"])
    ap.add_argument("--replay", default=None)
    ap.add_argument("--no-evidence", action="store_true")
    a = ap.parse_args(argv)
    t0 = time.time()
    try:
        project = Project(REPO)
        if project.parse_errors:
            print(f"ANALYSIS-ERROR property={a.pid} parse failed: {project.parse_errors}")
            return 2
        ctx = run_rules(a.pid, a.tier, project)
        replay_key = None
        if a.replay:
            with open(a.replay) as fh:
                replay_key = json.load(fh)["key"]
        if a.tier == "thorough" and not a.replay:
            from . import controls
            controls.run_all(ctx)
        return finish(ctx, t0, replay_key=replay_key, write_evidence=not a.no_evidence and not a.replay)
    except Exception:  # a traceback must never look like a violation
        traceback.print_exc()
        print(f"ANALYSIS-ERROR property={a.pid} internal error in the checker (see traceback)")
        return 2


if __name__ == "__main__":
    sys.exit(main())
