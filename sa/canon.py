"""Canonicalisation pass applied to every parsed module before any rule looks at it.

Rules compare shapes of code; several spellings of the same behaviour must therefore look the same.  The pass rewrites, keeping line numbers:
    N1  a > b  ->  b < a ;  a >= b -> b <= a                      (single-operator comparisons)
    N2  if not C: A else: B  ->  if C: B else: A                  (whenever there is an else / elif part)
    N3  X = E; return X  ->  return E                             (adjacent statements; X not captured by a nested function)
    N4  operands of + and * chains in a fixed order (constants last)   (only where no operand can be a string / list / tuple; never matrix products)
The pass is idempotent.  `tools/metamorph.py` applies the inverse spellings to the whole repository and requires every check to stay silent.
"""
from __future__ import annotations

import ast
from typing import List


def _stringy(e: ast.AST) -> bool:
    return isinstance(e, (ast.JoinedStr, ast.List, ast.Tuple, ast.ListComp, ast.Starred)) or (isinstance(e, ast.Constant) and isinstance(e.value, (str, bytes))) or \
        (isinstance(e, ast.Call) and isinstance(e.func, ast.Name) and e.func.id in ("str", "list", "tuple", "repr", "sorted")) or \
        (isinstance(e, ast.Call) and isinstance(e.func, ast.Attribute) and e.func.attr in ("format", "join", "tolist", "split", "replace", "strip")) or \
        (isinstance(e, ast.BinOp) and isinstance(e.op, (ast.Add, ast.Mod)) and (_stringy(e.left) or _stringy(e.right)))


def _key(e: ast.AST) -> str:
    try:
        return ast.unparse(e)
    except Exception:  # pragma: no cover
        return ""


class _Exprs(ast.NodeTransformer):
    FLIP = {ast.Gt: ast.Lt, ast.GtE: ast.LtE}

    def visit_Compare(self, n):
        self.generic_visit(n)
        if len(n.ops) == 1 and type(n.ops[0]) in self.FLIP:
            return ast.copy_location(ast.Compare(left=n.comparators[0], ops=[self.FLIP[type(n.ops[0])]()], comparators=[n.left]), n)
        return n


def _visit_BinOp(self, n):
    self.generic_visit(n)
    if isinstance(n.op, (ast.Add, ast.Mult)) and not _stringy(n.left) and not _stringy(n.right):
        # N4: flatten the chain of the same operator, order the operands (constants last), rebuild left-associated
        ops: List[ast.expr] = []

        def flat(e):
            if isinstance(e, ast.BinOp) and type(e.op) is type(n.op) and not _stringy(e.left) and not _stringy(e.right):
                flat(e.left)
                flat(e.right)
            else:
                ops.append(e)
        flat(n)
        ops.sort(key=lambda e: (isinstance(e, ast.Constant), _key(e)))
        out = ops[0]
        for o in ops[1:]:
            out = ast.copy_location(ast.BinOp(left=out, op=type(n.op)(), right=o), n)
        return out
    return n


_Exprs.visit_BinOp = _visit_BinOp


def _names(node: ast.AST, ident: str):
    return [x for x in ast.walk(node) if isinstance(x, ast.Name) and x.id == ident]


class _Stmts:
    """statement-level rewrites, per function so that N3 can count uses"""

    def __init__(self):
        self.func: ast.AST = None

    def block(self, body: List[ast.stmt]) -> List[ast.stmt]:
        out: List[ast.stmt] = []
        i = 0
        while i < len(body):
            st = body[i]
            st = self.stmt(st)
            nxt = body[i + 1] if i + 1 < len(body) else None
            if (isinstance(st, ast.Assign) and len(st.targets) == 1 and isinstance(st.targets[0], ast.Name) and isinstance(nxt, ast.Return)
                    and isinstance(nxt.value, ast.Name) and nxt.value.id == st.targets[0].id and self.func is not None):
                x = st.targets[0].id
                # the binding is dead after the return unless a nested function / lambda of this function reads x
                captured = any(isinstance(nm, ast.Name) and nm.id == x for d in ast.walk(self.func) if d is not self.func and isinstance(d, (ast.FunctionDef, ast.AsyncFunctionDef, ast.Lambda))
                               for nm in ast.walk(d))
                if not captured:
                    out.append(ast.copy_location(ast.Return(value=st.value), st))
                    i += 2
                    continue
            out.append(st)
            i += 1
        return out

    def stmt(self, st: ast.stmt) -> ast.stmt:
        if isinstance(st, (ast.FunctionDef, ast.AsyncFunctionDef)):
            saved = self.func
            self.func = st
            st.body = self.block(st.body)
            self.func = saved
            return st
        if isinstance(st, ast.ClassDef):
            saved = self.func
            self.func = None
            st.body = self.block(st.body)
            self.func = saved
            return st
        for fld in ("body", "orelse", "finalbody"):
            blk = getattr(st, fld, None)
            if isinstance(blk, list) and blk and isinstance(blk[0], ast.stmt):
                setattr(st, fld, self.block(blk))
        if isinstance(st, ast.Try):
            for h in st.handlers:
                h.body = self.block(h.body)
        if isinstance(st, ast.If) and st.orelse:
            t = st.test
            if isinstance(t, ast.UnaryOp) and isinstance(t.op, ast.Not):
                st.test, st.body, st.orelse = t.operand, st.orelse, st.body
        return st


def canonicalise(tree: ast.Module) -> ast.Module:
    tree = _Exprs().visit(tree)
    s = _Stmts()
    tree.body = s.block(tree.body)
    ast.fix_missing_locations(tree)
    return tree
