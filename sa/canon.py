"""Canonicalisation pass applied to every parsed module before any rule looks at it.

Rules compare shapes of code; several spellings of the same behaviour must therefore look the same.  The pass rewrites, keeping line numbers:
    N1  a > b  ->  b < a ;  a >= b -> b <= a                      (single-operator comparisons)
    N2  if not C: A else: B  ->  if C: B else: A                  (whenever there is an else / elif part)
    N6  if C: ...return / raise  else: B  ->  if C: ...return / raise ; B   (an arm that always leaves is the `if` body, the other arm follows the if)
    N9  if a: (if b: S)  ->  if a and b: S                            (no else on either)
    N10 X = p if c else q  /  return p if c else q  ->  the if-statement it abbreviates
    N12 [e(k) for k in (c0, c1)]  ->  [e(c0), e(c1)]                   (literal tuple / list of constants)
    N13 X = []; for T in IT: X.append(E)  ->  X = [E for T in IT]      (adjacent; also with one `if C:` around the append; T not read elsewhere)
    N18 x = A; x = F(x)  ->  x = F(A)                                    (adjacent rebinding of one name, x read once on the right)
    N17 for k in (c0, c1) / range(2): BODY  ->  BODY[k := c0]; BODY[k := c1]     (literal constants, at most 2 - the two-axis idiom; no break / continue; k only used inside)
    N16 X = a.b.c; if X is None: X = F  ->  if a.b.c is not None: X = a.b.c else: X = F     (fetch-then-default)
    N15 x = a.b.c; ...x...  ->  ...a.b.c...                             (x a single-assignment alias of a pure attribute chain whose base / prefixes are not reassigned)
    N14 np.zeros(shape=s) -> np.zeros(s); np.full(fill_value=c, shape=s) -> np.full(s, c); positional dtype -> dtype=   (numpy constructors in one spelling)
    N7  X = E; <statement reading X once>  ->  <statement with E>       (X bound once and read once; adjacent statements; applied repeatedly)
    N3  X = E; return X  ->  return E                             (adjacent statements; X not captured by a nested function)
    N4  operands of + and * chains in a fixed order (constants last)   (only where no operand can be a string / list / tuple; never matrix products)
The pass is idempotent.  `tools/metamorph.py` applies the inverse spellings to the whole repository and requires every check to stay silent.
"""
from __future__ import annotations

import ast
from typing import List


def _stringy(e: ast.AST) -> bool:
    return isinstance(e, (ast.JoinedStr, ast.List, ast.Tuple, ast.ListComp, ast.Starred)) or (isinstance(e, ast.Constant) and isinstance(e.value, (str, bytes))) or \
        (isinstance(e, ast.Call) and isinstance(e.func, ast.Name) and e.func.id in ("str", "list", "tuple", "repr", "sorted")) or \
        (isinstance(e, ast.Call) and isinstance(e.func, ast.Attribute) and e.func.attr in ("format", "join", "tolist", "split", "replace", "strip")) or \
        (isinstance(e, ast.BinOp) and isinstance(e.op, (ast.Add, ast.Mod)) and (_stringy(e.left) or _stringy(e.right)))


def _key(e: ast.AST) -> str:
    try:
        return ast.unparse(e)
    except Exception:  # pragma: no cover
        return ""


class _Exprs(ast.NodeTransformer):
    FLIP = {ast.Gt: ast.Lt, ast.GtE: ast.LtE}

    def visit_Compare(self, n):
        self.generic_visit(n)
        if len(n.ops) == 1 and type(n.ops[0]) in self.FLIP:
            return ast.copy_location(ast.Compare(left=n.comparators[0], ops=[self.FLIP[type(n.ops[0])]()], comparators=[n.left]), n)
        return n


_NP_CTORS = {"zeros": ("shape", "dtype"), "ones": ("shape", "dtype"), "empty": ("shape", "dtype"), "full": ("shape", "fill_value", "dtype")}


def _visit_Call(self, n):
    """N14: numpy constructors in one spelling - shape (and fill_value) positional, dtype by keyword: np.zeros(shape=s) -> np.zeros(s); np.full(fill_value=c, shape=s) -> np.full(s, c)"""
    self.generic_visit(n)
    f = n.func
    if isinstance(f, ast.Attribute) and isinstance(f.value, ast.Name) and f.value.id in ("np", "numpy") and f.attr in _NP_CTORS \
            and not any(isinstance(a, ast.Starred) for a in n.args) and all(k.arg is not None for k in n.keywords):
        order = _NP_CTORS[f.attr]
        lead = [x for x in order if x != "dtype"]
        kws = {k.arg: k for k in n.keywords}
        args = list(n.args)
        if len(args) > len(order):
            return n
        # positional dtype -> keyword
        if len(args) == len(order) and "dtype" not in kws:
            kws["dtype"] = ast.keyword(arg="dtype", value=args.pop())
        while len(args) < len(lead) and lead[len(args)] in kws:
            args.append(kws.pop(lead[len(args)]).value)
        n.args = args
        n.keywords = [k for k in n.keywords if k.arg in kws] + [k for a, k in kws.items() if k not in n.keywords]
    return n


def _literal_items(it):
    """the constants a literal iterable yields: (c0, c1, ..) / [c0, ..] of at most 6 constants, or range(c) / range(a, b) with small literal bounds; else None"""
    if isinstance(it, (ast.Tuple, ast.List)) and 1 <= len(it.elts) <= 6 and all(isinstance(c, ast.Constant) for c in it.elts):
        return list(it.elts)
    if isinstance(it, (ast.Tuple, ast.List)) and 1 <= len(it.elts) <= 2 and all(_pure_read(c) for c in it.elts):
        return list(it.elts)   # a pair of plain reads (self.shape[0], self.shape[1]): the two-axis idiom over expressions
    if isinstance(it, ast.Call) and isinstance(it.func, ast.Name) and it.func.id == "range" and not it.keywords and 1 <= len(it.args) <= 2 \
            and all(isinstance(a, ast.Constant) and isinstance(a.value, int) and not isinstance(a.value, bool) for a in it.args):
        lo, hi = (0, it.args[0].value) if len(it.args) == 1 else (it.args[0].value, it.args[1].value)
        if 1 <= hi - lo <= 4:
            return [ast.Constant(value=k) for k in range(lo, hi)]
    return None


def _pure_read(e) -> bool:
    """a name, attribute chain or constant-subscript of one: reading it twice is reading it once"""
    while isinstance(e, (ast.Attribute, ast.Subscript)):
        if isinstance(e, ast.Subscript) and not isinstance(e.slice, ast.Constant):
            return False
        e = e.value
    return isinstance(e, ast.Name)


def _unroll_comp(self, n):
    """N12: [e(k) for k in (c0, c1, ...)] over a literal tuple / list of constants is the list [e(c0), e(c1), ...]"""
    self.generic_visit(n)
    if len(n.generators) == 1:
        g = n.generators[0]
        consts = _literal_items(g.iter)
        if not g.ifs and not g.is_async and isinstance(g.target, ast.Name) and consts is not None:
            import copy

            class S(ast.NodeTransformer):
                def __init__(s2, c):
                    s2.c = c

                def visit_Name(s2, m):
                    return ast.copy_location(copy.deepcopy(s2.c), m) if (m.id == g.target.id and isinstance(m.ctx, ast.Load)) else m
            return ast.copy_location(ast.List(elts=[S(c).visit(copy.deepcopy(n.elt)) for c in consts], ctx=ast.Load()), n)
    return n


def _visit_Subscript(self, n):
    """a[slice(p, q), slice(r, s)] is a[p:q, r:s] (slice objects built by the slice builtin, directly in the subscript)"""
    self.generic_visit(n)

    def conv(e):
        if isinstance(e, ast.Call) and isinstance(e.func, ast.Name) and e.func.id == "slice" and not e.keywords and 1 <= len(e.args) <= 3 and not any(isinstance(a, ast.Starred) for a in e.args):
            none = lambda x: None if (isinstance(x, ast.Constant) and x.value is None) else x
            if len(e.args) == 1:
                return ast.copy_location(ast.Slice(lower=None, upper=none(e.args[0]), step=None), e)
            return ast.copy_location(ast.Slice(lower=none(e.args[0]), upper=none(e.args[1]), step=none(e.args[2]) if len(e.args) == 3 else None), e)
        return e
    if isinstance(n.slice, ast.Tuple):
        n.slice.elts = [conv(x) for x in n.slice.elts]
    else:
        n.slice = conv(n.slice)
    return n


_Exprs.visit_Subscript = _visit_Subscript
_Exprs.visit_ListComp = _unroll_comp
_Exprs.visit_Call = _visit_Call


def _visit_BinOp(self, n):
    self.generic_visit(n)
    if isinstance(n.op, (ast.Add, ast.Mult)) and not _stringy(n.left) and not _stringy(n.right):
        # N4: flatten the chain of the same operator, order the operands (constants last), rebuild left-associated
        ops: List[ast.expr] = []

        def flat(e):
            if isinstance(e, ast.BinOp) and type(e.op) is type(n.op) and not _stringy(e.left) and not _stringy(e.right):
                flat(e.left)
                flat(e.right)
            else:
                ops.append(e)
        flat(n)
        ops.sort(key=lambda e: (isinstance(e, ast.Constant), _key(e)))
        out = ops[0]
        for o in ops[1:]:
            out = ast.copy_location(ast.BinOp(left=out, op=type(n.op)(), right=o), n)
        return out
    return n


class _Commute(ast.NodeTransformer):
    visit_BinOp = _visit_BinOp


ENABLE_N7 = False   # inlining of single-use temporaries at AST level changes too much of what rules anchor on; the same spelling is looked through at the accessor level instead (wire.kw)


ENABLE_N15 = True


def _chain(e):
    """'a.b.c' for a pure Name / Attribute chain with at least one attribute, else None"""
    parts = []
    while isinstance(e, ast.Attribute):
        parts.append(e.attr)
        e = e.value
    if isinstance(e, ast.Name) and parts:
        return ".".join([e.id] + parts[::-1])
    return None


def _propagate_aliases(f: ast.AST) -> int:
    """N15: x = a.b.c (a pure attribute chain), x bound nowhere else, every read of x after that statement in the same block (at any depth), the chain's base never
    rebound and no prefix of the chain assigned in the function  ->  the reads of x are reads of a.b.c and the assignment disappears."""
    import copy
    done = 0
    params = {a.arg for a in f.args.posonlyargs + f.args.args + f.args.kwonlyargs} | ({f.args.vararg.arg} if f.args.vararg else set()) | ({f.args.kwarg.arg} if f.args.kwarg else set())
    nested = [n for n in ast.walk(f) if n is not f and isinstance(n, (ast.FunctionDef, ast.AsyncFunctionDef, ast.Lambda, ast.ClassDef))]
    nested_names = {m.id for n in nested for m in ast.walk(n) if isinstance(m, ast.Name)}
    if any(isinstance(n, (ast.Global, ast.Nonlocal)) for n in ast.walk(f)):
        return 0
    while True:
        stores = {}
        attr_stores = set()
        for n in ast.walk(f):
            if isinstance(n, ast.Name) and isinstance(n.ctx, (ast.Store, ast.Del)):
                stores.setdefault(n.id, []).append(n)
            elif isinstance(n, ast.Attribute) and isinstance(n.ctx, (ast.Store, ast.Del)):
                c = _chain(n)
                if c:
                    attr_stores.add(c)
            elif isinstance(n, ast.arg) and n is not f.args:
                pass
        hit = None

        def blocks(node):
            for fld in ("body", "orelse", "finalbody"):
                b = getattr(node, fld, None)
                if isinstance(b, list) and b and isinstance(b[0], ast.stmt):
                    yield b
            if isinstance(node, ast.Try):
                for h in node.handlers:
                    yield h.body
        todo = [f]
        while todo and hit is None:
            node = todo.pop()
            if node is not f and isinstance(node, (ast.FunctionDef, ast.AsyncFunctionDef, ast.ClassDef)):
                continue
            for b in blocks(node):
                for i, st in enumerate(b):
                    todo.append(st)
                    if hit is not None or not (isinstance(st, ast.Assign) and len(st.targets) == 1 and isinstance(st.targets[0], ast.Name)):
                        continue
                    x, ch = st.targets[0].id, _chain(st.value)
                    if ch is None or x in params or x in nested_names or len(stores.get(x, ())) != 1:
                        continue
                    base = ch.split(".")[0]
                    if base == x:
                        continue
                    if base in stores:
                        # a local base is fine when it is bound exactly once, by an earlier statement of this same block (it cannot change between the alias and its uses)
                        bs = stores[base]
                        if not (len(bs) == 1 and any(any(m is bs[0] for m in ast.walk(prev)) for prev in b[:i] if isinstance(prev, (ast.Assign, ast.AnnAssign)))):
                            continue
                    prefixes = {".".join(ch.split(".")[:k]) for k in range(2, len(ch.split(".")) + 1)}
                    if prefixes & attr_stores:
                        continue
                    after = {id(m) for s2 in b[i + 1:] for m in ast.walk(s2)}
                    loads = [m for m in ast.walk(f) if isinstance(m, ast.Name) and m.id == x and isinstance(m.ctx, ast.Load)]
                    if not loads or any(id(m) not in after for m in loads):
                        continue
                    hit = (b, i, x, st.value)
        if hit is None:
            return done
        b, i, x, val = hit

        class R(ast.NodeTransformer):
            def visit_Name(self, n):
                if n.id == x and isinstance(n.ctx, ast.Load):
                    return ast.copy_location(copy.deepcopy(val), n)
                return n
        for k in range(i + 1, len(b)):
            b[k] = R().visit(b[k])
        del b[i]
        if not b:
            b.append(ast.Pass())
        done += 1


class _Passthrough:
    """a _Stmts whose per-statement step is the identity (used to re-run the block-level rewrites on statements that are already canonical)"""

    def __init__(self, func):
        self.func = func
        self._counts = None

    def stmt(self, st):
        return st

    def _append_loop(self, st, nxt):
        return None

    def _fetch_default(self, st, nxt):
        return None

    def _unroll_loop(self, st):
        return None

    def _merge_rebinding(self, st, nxt):
        return None

    def _memo_dict(self, st, nxt):
        return False

    def block_done(self, stmts):
        return _Stmts.block(self, stmts)

    def _single_use(self, x):
        return _Stmts._single_use(self, x)

    def _use_site(self, st, x):
        return _Stmts._use_site(st, x)


_POLARITY = {ast.NotEq: ast.Eq, ast.Is: ast.IsNot, ast.NotIn: ast.In}


def _terminates(body) -> bool:
    if not body:
        return False
    last = body[-1]
    if isinstance(last, (ast.Return, ast.Raise, ast.Continue, ast.Break)):
        return True
    if isinstance(last, ast.If):
        return _terminates(last.body) and _terminates(last.orelse)
    return False


def _names(node: ast.AST, ident: str):
    return [x for x in ast.walk(node) if isinstance(x, ast.Name) and x.id == ident]


class _Stmts:
    """statement-level rewrites, per function so that N3 can count uses"""

    def __init__(self):
        self.func: ast.AST = None

    def block(self, body: List[ast.stmt]) -> List[ast.stmt]:
        out: List[ast.stmt] = []
        i = 0
        while i < len(body):
            st = body[i]
            # N18: x = A; x = F(x)   ->   x = F(A)      (adjacent rebinding of the same name, x read exactly once on the right, not under a lambda / comprehension)
            merged = self._merge_rebinding(st, body[i + 1] if i + 1 < len(body) else None)
            while merged is not None:
                body = body[:i] + [merged] + body[i + 2:]
                st = merged
                merged = self._merge_rebinding(st, body[i + 1] if i + 1 < len(body) else None)
            # N17: for k in (c0, c1) / range(2): BODY  ->  BODY[k := c0]; BODY[k := c1]      (literal constants; k not assigned in BODY, no break / continue, k not read after)
            unrolled = self._unroll_loop(st)
            if unrolled is not None:
                body = body[:i] + unrolled + body[i + 1:]
                st = body[i]
            # N19: D = {}; for o in L: [if id(o) not in D:] D[id(o)] = V(o)   with every other use of D a read D[id(x)]   ->   those reads are V(x), D and the loop go
            #      (a per-call memo keyed by object identity: the same object gives the same pure attribute read; any other key may merge different objects and stays)
            if self._memo_dict(st, body[i + 1] if i + 1 < len(body) else None):
                body = body[:i] + body[i + 2:]
                continue
            # N16: X = a.b.c; if X is None: X = F   ->   if a.b.c is not None: X = a.b.c  else: X = F      (fetch-then-default; a.b.c a pure attribute chain)
            dflt = self._fetch_default(st, body[i + 1] if i + 1 < len(body) else None)
            if dflt is not None:
                st = dflt
                i += 1
            # N13: X = []; for T in IT: X.append(E)   ->   X = [E for T in IT]      (also with one `if C:` around the append)
            comp = self._append_loop(st, body[i + 1] if i + 1 < len(body) else None)
            if comp is not None:
                st = comp
                i += 1
            # N10: a conditional expression that is the whole value of an assignment / return is the if-statement it abbreviates
            if isinstance(st, (ast.Assign, ast.Return)) and isinstance(st.value, ast.IfExp) and (isinstance(st, ast.Return) or (len(st.targets) == 1 and isinstance(st.targets[0], ast.Name))):
                ie = st.value

                def arm(v, _st=st):
                    if isinstance(_st, ast.Return):
                        return ast.copy_location(ast.Return(value=v), _st)
                    return ast.copy_location(ast.Assign(targets=[ast.Name(id=_st.targets[0].id, ctx=ast.Store())], value=v), _st)
                st = ast.copy_location(ast.If(test=ie.test, body=[arm(ie.body)], orelse=[arm(ie.orelse)]), st)
            st = self.stmt(st)
            # N7: a temporary bound once, read once, in the very next statement, stands for its expression there (applied repeatedly, so chains of temporaries collapse)
            while ENABLE_N7 and out and self.func is not None:
                prev = out[-1]
                if not (isinstance(prev, ast.Assign) and len(prev.targets) == 1 and isinstance(prev.targets[0], ast.Name)):
                    break
                x = prev.targets[0].id
                if not self._single_use(x):
                    break
                spot = self._use_site(st, x)
                if spot is None:
                    break
                parent, field, index = spot
                if index is None:
                    setattr(parent, field, prev.value)
                else:
                    getattr(parent, field)[index] = prev.value
                out.pop()
                self._counts = None
            nxt = body[i + 1] if i + 1 < len(body) else None
            if (isinstance(st, ast.Assign) and len(st.targets) == 1 and isinstance(st.targets[0], ast.Name) and isinstance(nxt, ast.Return)
                    and isinstance(nxt.value, ast.Name) and nxt.value.id == st.targets[0].id and self.func is not None):
                x = st.targets[0].id
                # the binding is dead after the return unless a nested function / lambda of this function reads x
                captured = any(isinstance(nm, ast.Name) and nm.id == x for d in ast.walk(self.func) if d is not self.func and isinstance(d, (ast.FunctionDef, ast.AsyncFunctionDef, ast.Lambda))
                               for nm in ast.walk(d))
                if not captured:
                    out.append(ast.copy_location(ast.Return(value=st.value), st))
                    i += 2
                    continue
            if isinstance(st, ast.If) and st.orelse and _terminates(st.body):
                # ... and N6: the other arm follows the if instead of hanging in an else
                rest, st.orelse = st.orelse, []
                out.append(st)
                out.extend(rest)
            else:
                out.append(st)
            # when both the branch and everything after it leave the function, the two are the arms of one test: the positive test comes first (N2 for the else-less spelling)
            last = out[-1] if not (isinstance(st, ast.If) and out and out[-1] is not st) else None
            k = len(out) - 1
            while k >= 0 and out[k] is not st:
                k -= 1
            if (isinstance(st, ast.If) and k >= 0 and not st.orelse and _terminates(st.body) and isinstance(st.test, ast.UnaryOp) and isinstance(st.test.op, ast.Not)):
                tail = out[k + 1:] + [self.stmt(x) for x in body[i + 1:]]
                if tail and _terminates(tail):
                    tail = self.block_done(tail)
                    new_if = ast.copy_location(ast.If(test=st.test.operand, body=tail, orelse=[]), st)
                    return out[:k] + [new_if] + st.body
            i += 1
        return out

    def _merge_rebinding(self, st, nxt):
        import copy
        if not (isinstance(st, ast.Assign) and len(st.targets) == 1 and isinstance(st.targets[0], ast.Name) and isinstance(nxt, ast.Assign) and len(nxt.targets) == 1
                and isinstance(nxt.targets[0], ast.Name) and nxt.targets[0].id == st.targets[0].id):
            return None
        x = st.targets[0].id
        uses = [n for n in ast.walk(nxt.value) if isinstance(n, ast.Name) and n.id == x]
        if len(uses) != 1 or not isinstance(uses[0].ctx, ast.Load):
            return None
        for n in ast.walk(nxt.value):
            if isinstance(n, (ast.Lambda, ast.ListComp, ast.SetComp, ast.DictComp, ast.GeneratorExp, ast.IfExp, ast.BoolOp)) and any(m is uses[0] for m in ast.walk(n)):
                return None   # evaluated later, repeatedly or conditionally
        if _names(st.value, x) and False:
            return None
        target = uses[0]

        class R(ast.NodeTransformer):
            def visit_Name(s2, n):
                return copy.deepcopy(st.value) if n is target else n
        new_val = R().visit(nxt.value)
        return ast.copy_location(ast.Assign(targets=[ast.Name(id=x, ctx=ast.Store())], value=new_val), st)

    def _unroll_loop(self, st):
        import copy
        if not (isinstance(st, ast.For) and not st.orelse and isinstance(st.target, ast.Name) and self.func is not None):
            return None
        consts = _literal_items(st.iter)
        if consts is None or len(consts) > 2:   # the two-axis idiom; longer literal loops stay loops
            return None
        k = st.target.id
        if any(isinstance(n, (ast.Break, ast.Continue)) for b in st.body for n in ast.walk(b)):
            return None
        if any(isinstance(n, ast.Name) and n.id == k and isinstance(n.ctx, (ast.Store, ast.Del)) for b in st.body for n in ast.walk(b)):
            return None
        inside = {id(n) for n in ast.walk(st)}
        if any(isinstance(n, ast.Name) and n.id == k and id(n) not in inside for n in ast.walk(self.func)):
            return None
        if sum(1 for b in st.body for _ in ast.walk(b)) > 400:
            return None

        class S(ast.NodeTransformer):
            def __init__(s2, c):
                s2.c = c

            def visit_Name(s2, m):
                return ast.copy_location(copy.deepcopy(s2.c), m) if (m.id == k and isinstance(m.ctx, ast.Load)) else m
        out = []
        for c in consts:
            out.extend(S(c).visit(copy.deepcopy(b)) for b in st.body)
        return out

    def _fetch_default(self, st, nxt):
        import copy
        if not (isinstance(st, ast.Assign) and len(st.targets) == 1 and isinstance(st.targets[0], ast.Name) and _chain(st.value) is not None):
            return None
        x = st.targets[0].id
        if not (isinstance(nxt, ast.If) and not nxt.orelse and len(nxt.body) == 1 and isinstance(nxt.body[0], ast.Assign) and len(nxt.body[0].targets) == 1
                and isinstance(nxt.body[0].targets[0], ast.Name) and nxt.body[0].targets[0].id == x):
            return None
        t = nxt.test
        if not (isinstance(t, ast.Compare) and len(t.ops) == 1 and isinstance(t.ops[0], ast.Is) and isinstance(t.left, ast.Name) and t.left.id == x
                and isinstance(t.comparators[0], ast.Constant) and t.comparators[0].value is None):
            return None
        if _names(nxt.body[0].value, x):
            return None
        test = ast.copy_location(ast.Compare(left=copy.deepcopy(st.value), ops=[ast.IsNot()], comparators=[ast.Constant(value=None)]), t)
        return ast.copy_location(ast.If(test=test, body=[st], orelse=[nxt.body[0]]), st)

    def _memo_dict(self, st, nxt) -> bool:
        if not (isinstance(st, ast.Assign) and len(st.targets) == 1 and isinstance(st.targets[0], ast.Name) and self.func is not None):
            return False
        v = st.value
        if not ((isinstance(v, ast.Dict) and not v.keys) or (isinstance(v, ast.Call) and isinstance(v.func, ast.Name) and v.func.id == "dict" and not v.args and not v.keywords)):
            return False
        if not (isinstance(nxt, ast.For) and not nxt.orelse and len(nxt.body) == 1 and isinstance(nxt.target, ast.Name)):
            return False
        D, o = st.targets[0].id, nxt.target.id

        def is_key(e, var):
            return isinstance(e, ast.Call) and isinstance(e.func, ast.Name) and e.func.id == "id" and len(e.args) == 1 and not e.keywords and isinstance(e.args[0], ast.Name) and e.args[0].id == var
        inner = nxt.body[0]
        if isinstance(inner, ast.If) and not inner.orelse and len(inner.body) == 1:
            t = inner.test
            if not (isinstance(t, ast.Compare) and len(t.ops) == 1 and isinstance(t.ops[0], ast.NotIn) and is_key(t.left, o) and isinstance(t.comparators[0], ast.Name) and t.comparators[0].id == D):
                return False
            inner = inner.body[0]
        if not (isinstance(inner, ast.Assign) and len(inner.targets) == 1 and isinstance(inner.targets[0], ast.Subscript) and isinstance(inner.targets[0].value, ast.Name)
                and inner.targets[0].value.id == D and is_key(inner.targets[0].slice, o)):
            return False
        V = inner.value
        if not _pure_read(V) or not isinstance(V, ast.Attribute):
            return False
        root = V
        while isinstance(root, (ast.Attribute, ast.Subscript)):
            root = root.value
        if root.id != o or _names(nxt.iter, D):
            return False
        # every other occurrence of D in the function is a read D[id(x)], x a name; the loop variable is not read after the loop
        mine = {id(m) for m in ast.walk(st)} | {id(m) for m in ast.walk(nxt)}
        reads = []
        parents = {}
        for p_ in ast.walk(self.func):
            for ch in ast.iter_child_nodes(p_):
                parents[id(ch)] = p_
        for m in ast.walk(self.func):
            if isinstance(m, ast.Name) and id(m) not in mine:
                if m.id == D:
                    par = parents.get(id(m))
                    if not (isinstance(par, ast.Subscript) and par.value is m and isinstance(par.ctx, ast.Load) and isinstance(par.slice, ast.Call) and isinstance(par.slice.func, ast.Name)
                            and par.slice.func.id == "id" and len(par.slice.args) == 1 and isinstance(par.slice.args[0], ast.Name)):
                        return False
                    reads.append(par)
        if not reads:
            return False
        import copy as _copy

        class R(ast.NodeTransformer):
            def visit_Subscript(s2, n):
                s2.generic_visit(n)
                if any(n is r for r in reads):
                    x = n.slice.args[0].id

                    class Sub(ast.NodeTransformer):
                        def visit_Name(s3, nm):
                            return ast.copy_location(ast.Name(id=x, ctx=nm.ctx), nm) if nm.id == o else nm
                    return ast.copy_location(Sub().visit(_copy.deepcopy(V)), n)
                return n
        R().visit(self.func)
        return True

    def _append_loop(self, st, nxt):
        if not (isinstance(st, ast.Assign) and len(st.targets) == 1 and isinstance(st.targets[0], ast.Name) and isinstance(st.value, ast.List) and not st.value.elts):
            return None
        if not (isinstance(nxt, ast.For) and not nxt.orelse and len(nxt.body) == 1 and self.func is not None):
            return None
        x = st.targets[0].id
        inner, cond = nxt.body[0], None
        if isinstance(inner, ast.If) and not inner.orelse and len(inner.body) == 1:
            inner, cond = inner.body[0], inner.test
        if not (isinstance(inner, ast.Expr) and isinstance(inner.value, ast.Call) and isinstance(inner.value.func, ast.Attribute) and inner.value.func.attr == "append"
                and isinstance(inner.value.func.value, ast.Name) and inner.value.func.value.id == x and len(inner.value.args) == 1 and not inner.value.keywords
                and not isinstance(inner.value.args[0], ast.Starred)):
            return None
        elt = inner.value.args[0]
        if any(_names(e, x) for e in (elt, nxt.iter, nxt.target) + ((cond,) if cond is not None else ())):
            return None
        if any(isinstance(m, (ast.Yield, ast.YieldFrom, ast.Await, ast.NamedExpr)) for e in (elt, nxt.iter) + ((cond,) if cond is not None else ()) for m in ast.walk(e)):
            return None
        # the loop variable of a for statement survives the loop, that of a comprehension does not: only when it is not read elsewhere
        tnames = {m.id for m in ast.walk(nxt.target) if isinstance(m, ast.Name)}
        inside = {id(m) for m in ast.walk(nxt)}
        for m in ast.walk(self.func):
            if isinstance(m, ast.Name) and m.id in tnames and id(m) not in inside:
                return None
        comp = ast.ListComp(elt=elt, generators=[ast.comprehension(target=nxt.target, iter=nxt.iter, ifs=[cond] if cond is not None else [], is_async=0)])
        return ast.copy_location(ast.Assign(targets=[ast.Name(id=x, ctx=ast.Store())], value=ast.copy_location(comp, nxt)), st)

    def block_done(self, stmts: List[ast.stmt]) -> List[ast.stmt]:
        """statements that were already processed one by one: only the block-level rewrites (N3, N6 hoisting) remain to be applied"""
        return _Stmts.block(_Passthrough(self.func), stmts)

    _counts = None

    def _single_use(self, x: str) -> bool:
        """x is bound exactly once and read exactly once in the current function, is not a parameter and is not touched by a nested function / lambda / comprehension"""
        if self._counts is None:
            loads, stores, banned = {}, {}, set()
            f = self.func
            for a in f.args.posonlyargs + f.args.args + f.args.kwonlyargs + ([f.args.vararg] if f.args.vararg else []) + ([f.args.kwarg] if f.args.kwarg else []):
                banned.add(a.arg)

            def walk(n, inner):
                for ch in ast.iter_child_nodes(n):
                    sub = inner or isinstance(ch, (ast.FunctionDef, ast.AsyncFunctionDef, ast.Lambda, ast.ClassDef, ast.ListComp, ast.SetComp, ast.DictComp, ast.GeneratorExp))
                    if isinstance(ch, ast.Name):
                        if sub:
                            banned.add(ch.id)
                        elif isinstance(ch.ctx, ast.Load):
                            loads[ch.id] = loads.get(ch.id, 0) + 1
                        else:
                            stores[ch.id] = stores.get(ch.id, 0) + 1
                    if isinstance(ch, (ast.Global, ast.Nonlocal)):
                        banned.update(ch.names)
                    walk(ch, sub)
            walk(f, False)
            self._counts = (loads, stores, banned)
        loads, stores, banned = self._counts
        return x not in banned and loads.get(x, 0) == 1 and stores.get(x, 0) == 1

    @staticmethod
    def _use_site(st: ast.stmt, x: str):
        """(parent node, field, index) of the single Load of x in the part of `st` that is evaluated exactly once when st starts to execute; None if it is not there"""
        if isinstance(st, (ast.Assign, ast.AugAssign, ast.AnnAssign, ast.Return, ast.Expr, ast.Raise, ast.Assert)):
            roots = [st]
        elif isinstance(st, (ast.If, ast.While)):
            roots = [] if isinstance(st, ast.While) else [st.test]
            holder = st
        elif isinstance(st, ast.For):
            roots = [st.iter]
        else:
            return None
        if isinstance(st, ast.If):
            if isinstance(st.test, ast.Name) and st.test.id == x:
                return (st, "test", None)
        if isinstance(st, ast.For):
            if isinstance(st.iter, ast.Name) and st.iter.id == x:
                return (st, "iter", None)
        for root in roots:
            for parent in ast.walk(root):
                if isinstance(parent, (ast.Lambda, ast.ListComp, ast.SetComp, ast.DictComp, ast.GeneratorExp, ast.BoolOp, ast.IfExp)):
                    # evaluated zero or many times: leave alone (ast.walk still descends; such uses are banned by _single_use for comprehensions, and BoolOp / IfExp operands are conditional)
                    if any(isinstance(n, ast.Name) and n.id == x for n in ast.walk(parent)):
                        return None
                for field, value in ast.iter_fields(parent):
                    if isinstance(value, ast.Name) and value.id == x and isinstance(value.ctx, ast.Load):
                        return (parent, field, None)
                    if isinstance(value, list):
                        for k, v in enumerate(value):
                            if isinstance(v, ast.Name) and v.id == x and isinstance(v.ctx, ast.Load):
                                return (parent, field, k)
        return None

    def stmt(self, st: ast.stmt) -> ast.stmt:
        if isinstance(st, (ast.FunctionDef, ast.AsyncFunctionDef)):
            saved = self.func
            saved_counts = self._counts
            self._counts = None
            self.func = st
            if ENABLE_N15:
                _propagate_aliases(st)
            st.body = self.block(st.body)
            self.func = saved
            self._counts = saved_counts
            return st
        if isinstance(st, ast.ClassDef):
            saved = self.func
            self.func = None
            st.body = self.block(st.body)
            self.func = saved
            return st
        for fld in ("body", "orelse", "finalbody"):
            blk = getattr(st, fld, None)
            if isinstance(blk, list) and blk and isinstance(blk[0], ast.stmt):
                setattr(st, fld, self.block(blk))
        if isinstance(st, ast.Try):
            for h in st.handlers:
                h.body = self.block(h.body)
        # N9: if a: (if b: S)  with no else on either  ->  if a and b: S
        while isinstance(st, ast.If) and not st.orelse and len(st.body) == 1 and isinstance(st.body[0], ast.If) and not st.body[0].orelse:
            inner = st.body[0]
            va = st.test.values if isinstance(st.test, ast.BoolOp) and isinstance(st.test.op, ast.And) else [st.test]
            vb = inner.test.values if isinstance(inner.test, ast.BoolOp) and isinstance(inner.test.op, ast.And) else [inner.test]
            st.test = ast.copy_location(ast.BoolOp(op=ast.And(), values=list(va) + list(vb)), st.test)
            st.body = inner.body
        if isinstance(st, ast.If) and st.orelse:
            tb, te = _terminates(st.body), _terminates(st.orelse)
            t = st.test
            negated = isinstance(t, ast.UnaryOp) and isinstance(t.op, ast.Not)
            if te and not tb:
                # N6: the arm that always leaves (return / raise / continue / break) becomes the `if` body ...
                st.test = t.operand if negated else ast.copy_location(ast.UnaryOp(op=ast.Not(), operand=t), t)
                st.body, st.orelse = st.orelse, st.body
            elif negated and not (tb and not te):
                # N2
                st.test, st.body, st.orelse = t.operand, st.orelse, st.body
            t = st.test
            tb, te = _terminates(st.body), _terminates(st.orelse)
            if st.orelse and not tb and not te and isinstance(t, ast.Compare) and len(t.ops) == 1 and type(t.ops[0]) in _POLARITY:
                # N2 for comparisons: with two arms that both fall through, the test is written as == / is not / in (the arms swap); guard clauses keep their test
                st.test = ast.copy_location(ast.Compare(left=t.left, ops=[_POLARITY[type(t.ops[0])]()], comparators=t.comparators), t)
                st.body, st.orelse = st.orelse, st.body
        return st


def canonicalise_names_free(tree: ast.Module) -> ast.Module:
    """stage A: the rewrites that do not depend on what variables are called (N1 - N3)"""
    tree = _Exprs().visit(tree)
    s = _Stmts()
    tree.body = s.block(tree.body)
    ast.fix_missing_locations(tree)
    return tree


def canonicalise(tree: ast.Module, relpath: str = None) -> ast.Module:
    tree = canonicalise_names_free(tree)
    if relpath is not None:
        tree.renamed_back = restore_local_names(tree, relpath)   # N5, before the only rewrite whose result depends on names (N4 orders operands by their text)
    tree = _Commute().visit(tree)
    ast.fix_missing_locations(tree)
    return tree


# ----------------------------------------------------------------------------------------------------------------------
# N5  local variable names: a function that is alpha-equivalent to its reference version gets the reference's local names back
#
# Rules name the local variables they look at (the counter `index`, the selector `values_to_solve` ...).  Renaming a local is the commonest
# behaviour-preserving edit there is, so before any rule runs, every function whose body equals the reference body up to a consistent renaming of
# its own local variables is rewritten with the reference names.  The reference (sa/alpha_reference.json: per function, a digest of the
# alpha-normal form of the canonicalised body and the local names in first-occurrence order) is generated from the clean tree by
# tools/gen_alpha_reference.py.  A function that differs from its reference in anything but local names is left exactly as written.
import hashlib
import json
import os

_REF_PATH = os.path.join(os.path.dirname(os.path.abspath(__file__)), "alpha_reference.json")
_REF = None


def _own_locals(f: ast.AST):
    """names bound in f itself (not parameters, not global / nonlocal, not bound only inside nested scopes), in first-occurrence order, plus all Name nodes of f's own scope"""
    params = {a.arg for a in f.args.posonlyargs + f.args.args + f.args.kwonlyargs}
    if f.args.vararg:
        params.add(f.args.vararg.arg)
    if f.args.kwarg:
        params.add(f.args.kwarg.arg)
    declared = set()
    nodes = []          # Name / ExceptHandler / alias nodes of this scope, in source order
    inner_reads = set()

    def walk(n):
        for ch in ast.iter_child_nodes(n):
            if isinstance(ch, (ast.FunctionDef, ast.AsyncFunctionDef, ast.Lambda, ast.ClassDef)):
                for x in ast.walk(ch):
                    if isinstance(x, ast.Name):
                        inner_reads.add(x.id)
                continue
            if isinstance(ch, (ast.Global, ast.Nonlocal)):
                declared.update(ch.names)
            if isinstance(ch, ast.Name):
                nodes.append(ch)
            walk(ch)
    walk(f)   # structural (field) order: independent of line numbers, which survive from whatever spelling the source had before canonicalisation
    stored = []
    for x in nodes:
        if isinstance(x.ctx, (ast.Store, ast.Del)) and x.id not in stored:
            stored.append(x.id)
    # comprehension targets live in their own scope but are harmless to treat as locals of f (they are renamed consistently)
    locs = [v for v in stored if v not in params and v not in declared and v not in inner_reads and not v.startswith("__")]
    return locs, nodes


class _KwSort(ast.NodeTransformer):
    def visit_Call(self, n):
        self.generic_visit(n)
        if len(n.keywords) > 1 and all(k.arg is not None for k in n.keywords):
            n.keywords = sorted(n.keywords, key=lambda k: k.arg)
        return n


def alpha_form(f: ast.AST):
    """(digest of the body with own locals replaced by placeholders numbered in BINDING order, operands of + / * and keyword arguments in a fixed order;
    local names in binding order).  Binding order does not depend on the order of operands, so the digest is invariant under renaming combined with N1 - N4 spellings."""
    import copy
    locs, nodes = _own_locals(f)
    order = list(locs)
    ph = {v: f"_L{k}" for k, v in enumerate(order)}
    saved = [(x, x.id) for x in nodes if x.id in ph]
    for x, _ in saved:
        x.id = ph[x.id]
    try:
        body = copy.deepcopy(ast.Module(body=f.body, type_ignores=[]))
    finally:
        for x, old in saved:
            x.id = old
    body = _KwSort().visit(_Commute().visit(body))
    text = ast.dump(body, annotate_fields=False, include_attributes=False)
    return hashlib.sha1(text.encode()).hexdigest()[:20], order, nodes


def def_keys(f: ast.AST):
    """[(local, key)] in binding order: key = digest of the statement shape that FIRST binds the local (the value for an assignment, the iterable for a loop variable,
    the position inside a tuple target), with every own local that occurs in it replaced by ITS key (or a forward marker when it is bound later).  Keys do not depend
    on what any local is called, nor on anything else in the function: a local whose defining statement is unchanged keeps its key when the rest of the function is
    edited.  Equal keys are told apart by their occurrence number."""
    import copy
    locs, nodes = _own_locals(f)
    locset = set(locs)
    first_stmt = {}

    def simple_parent(stmts):
        for st in stmts:
            if isinstance(st, (ast.FunctionDef, ast.AsyncFunctionDef, ast.ClassDef)):
                continue
            header = []
            if isinstance(st, (ast.Assign, ast.AugAssign, ast.AnnAssign)):
                header = [st]
            elif isinstance(st, ast.For):
                header = [st.target]
            elif isinstance(st, ast.With):
                header = [i.optional_vars for i in st.items if i.optional_vars is not None]
            for h in header:
                tg = h.targets if isinstance(h, ast.Assign) else ([h.target] if isinstance(h, (ast.AugAssign, ast.AnnAssign)) else [h])
                for t in tg:
                    for k_, x in enumerate(y for y in ast.walk(t) if isinstance(y, ast.Name) and isinstance(y.ctx, ast.Store)):
                        if x.id in locset and x.id not in first_stmt:
                            first_stmt[x.id] = (st, k_)
            if isinstance(st, ast.Try):
                for hd in st.handlers:
                    if hd.name and hd.name in locset and hd.name not in first_stmt:
                        first_stmt[hd.name] = (hd, 0)
                    simple_parent(hd.body)
            for fld in ("body", "orelse", "finalbody"):
                b = getattr(st, fld, None)
                if isinstance(b, list) and b and isinstance(b[0], ast.stmt):
                    simple_parent(b)
    simple_parent(f.body)
    keys = {}
    out = []
    for v in locs:
        ent = first_stmt.get(v)
        if ent is None:
            keys[v] = "?" + str(len(out))
            out.append((v, keys[v]))
            continue
        st, pos = ent
        if isinstance(st, ast.For):
            kind, expr = "for", st.iter
        elif isinstance(st, ast.With):
            kind, expr = "with", st.items[0].context_expr
        elif isinstance(st, ast.ExceptHandler):
            kind, expr = "except", st.type
        elif isinstance(st, ast.AugAssign):
            kind, expr = "aug" + type(st.op).__name__, st.value
        else:
            kind, expr = "assign", getattr(st, "value", None)
        e2 = copy.deepcopy(expr) if expr is not None else ast.Constant(value=None)
        for x in ast.walk(e2):
            if isinstance(x, ast.Name) and x.id in locset:
                x.id = keys.get(x.id, "_FWD")
        e2 = _KwSort().visit(_Commute().visit(e2))
        text = f"{kind}|{pos}|" + ast.dump(e2, annotate_fields=False, include_attributes=False)
        keys[v] = "_K" + hashlib.sha1(text.encode()).hexdigest()[:12]
        out.append((v, keys[v]))
    return out


def _qualified_functions(tree: ast.Module):
    out = []

    def visit(n, prefix):
        for ch in ast.iter_child_nodes(n):
            if isinstance(ch, (ast.FunctionDef, ast.AsyncFunctionDef)):
                q = f"{prefix}{ch.name}"
                out.append((q, ch))
                visit(ch, q + ".<locals>.")
            elif isinstance(ch, ast.ClassDef):
                visit(ch, f"{prefix}{ch.name}.")
            elif isinstance(ch, (ast.If, ast.Try, ast.With, ast.For, ast.While)):
                visit(ch, prefix)
    visit(tree, "")
    return out


def alpha_table(tree: ast.Module):
    return {q: {"digest": alpha_form(f)[0], "locals": alpha_form(f)[1], "defs": [k for _, k in def_keys(f)]} for q, f in _qualified_functions(tree)}


def reference_table() -> dict:
    global _REF
    if _REF is None:
        try:
            _REF = json.load(open(_REF_PATH))
        except Exception:
            _REF = {}
    return _REF


def restore_local_names(tree: ast.Module, relpath: str) -> int:
    """N5; returns the number of functions whose locals were renamed back to the reference names"""
    global _REF
    if _REF is None:
        try:
            _REF = json.load(open(_REF_PATH))
        except Exception:
            _REF = {}
    ref = _REF.get(relpath)
    if not ref:
        return 0
    n = 0
    for q, f in _qualified_functions(tree):
        r = ref.get(q)
        if not r:
            continue
        order, _ = _own_locals(f)
        if order == r["locals"]:
            continue   # same names (the usual case: no digest needed)
        full = False
        if len(order) == len(r["locals"]):
            digest, order, nodes = alpha_form(f)
            if digest == r["digest"]:
                ren = dict(zip(order, r["locals"]))
                if len(set(ren.values())) == len(ren):
                    for x in nodes:
                        if x.id in ren:
                            x.id = ren[x.id]
                    n += 1
                    full = True
        if full or "defs" not in r:
            continue
        # partial N5: the function was changed in more than names.  Every local whose DEFINING statement still has its reference shape (def_keys) gets its reference
        # name back; the others keep theirs.  (A renaming of locals is behaviour-preserving as long as nothing is captured: a target name that is already in use stays.)
        cur = def_keys(f)
        ref_key = dict(zip(r["locals"], r["defs"]))
        # a local that already carries a reference name with that name's own key is what it says it is (equal keys - three counters all starting at 0 - are told apart by name first)
        settled = {nm_ for nm_, k_ in cur if ref_key.get(nm_) == k_}
        ref_by_key = {}
        seen_k = {}
        for nm_, k_ in zip(r["locals"], r["defs"]):
            if nm_ in settled:
                continue
            j_ = seen_k.get(k_, 0)
            seen_k[k_] = j_ + 1
            ref_by_key[(k_, j_)] = nm_
        seen_k = {}
        ren = {}
        for nm_, k_ in cur:
            if nm_ in settled:
                continue
            j_ = seen_k.get(k_, 0)
            seen_k[k_] = j_ + 1
            tgt = ref_by_key.get((k_, j_))
            if tgt is not None and tgt != nm_ and not k_.startswith("?"):
                ren[nm_] = tgt
        if not ren:
            continue
        _, nodes = _own_locals(f)
        used = {x.id for x in ast.walk(f) if isinstance(x, ast.Name)} | {a.arg for a in ast.walk(f) if isinstance(a, ast.arg)}
        # a target that is in use by a name which is not itself renamed away would be captured: drop those renamings (iterate: dropping one may free / block another)
        changed_ = True
        while changed_:
            changed_ = False
            for src_, tgt_ in list(ren.items()):
                if tgt_ in used and tgt_ not in ren:
                    del ren[src_]
                    changed_ = True
        if len(set(ren.values())) != len(ren):
            continue
        if ren:
            for x in nodes:
                if x.id in ren:
                    x.id = ren[x.id]
            for h in ast.walk(f):
                if isinstance(h, ast.ExceptHandler) and h.name in ren:
                    h.name = ren[h.name]
            n += 1
    return n
