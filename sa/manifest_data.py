"""Per-property manifest text: what is decided, what is not (kept next to the rules)."""

PENDING = "check not built yet in this session (see DESIGN.md section 4 for the planned structural clauses)"

CHECKS = {
    "C13": {
        "text": "Decides, for every mask / baseline set / image / matrix at once, the structural clauses of the direct Fourier transform: the accumulated term of each "
                "of the 7 DFT kernels equals the reference form I_p(cos(phi)+i sin(phi)), phi=-2pi(x_p u_k+y_p v_k) (adjoint: Re V cos(psi) - Im V sin(psi)) by equality of canonical "
                "polynomial normal forms computed from the source; loops cover the full pixel/baseline ranges onto zeros; only zero-tests guard matrix entries (linearity for signed matrices); "
                "preload and direct variants are wired to the same grid, baselines, tables and slim image; interferometer normal equations pair real with real and imaginary with imaginary parts. "
                "Not decided: floating-point accuracy, the NUFFT transformer, numerical agreement of outputs.",
        "note": "Trusted: Python ast, the E1 resolver, numpy elementwise/indexing semantics, cos/sin treated as uninterpreted functions, the reference forms written from the property statement.",
        "technique": "static analysis: abstract evaluation of kernels to polynomial normal forms (dataflow with joins) + canonical-form equality with reference; call-site argument agreement between sibling branches",
    },
    "C03": {
        "text": "Decides the structural clauses of masked PSF blurring for every mask, odd kernel shape (non-square included) and signed kernel/image/matrix: frame construction is "
                "target = source - floor(K/2) + (i,j) per axis with each half-width taken from its own kernel dimension and paired with kernel[i,j] (flipped, centred convolution), recorded iff in-frame and "
                "unmasked, one slot per entry; the three scatter kernels accumulate value[a]*frame_kernel[a,r] into out[frame_index[a,r]] for exactly r < length[a] onto zeros with no other guard; the matrix "
                "variant is that operator per column with only a zero-test of the entry (holds for negative entries); image and blurring frames come from one routine on identical arguments; pixel numbering is "
                "slim-order; even kernels are rejected on both axes before any effect at the 4 entry points; whole-frame convolution is scipy convolve2d(native, kernel.native, 'same') slimmed on the mask it is returned on. "
                "Not decided: numerical equality with scipy, the zero-residual simulator/fit clause.",
        "note": "Trusted: Python ast, E1 resolver, numpy indexing semantics, scipy.signal.convolve2d, the reference forms.",
        "technique": "static analysis: abstract evaluation of kernels to polynomial normal forms + canonical-form equality; slim-traversal typestate; must-raise dominance; zero-test guard rule",
    },
}

NOT_APPLICABLE = {f"C{n:02d}": PENDING for n in range(1, 21) if f"C{n:02d}" not in CHECKS}
