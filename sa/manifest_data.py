"""Per-property manifest text: what is decided, what is not (kept next to the rules)."""

PENDING = "check not built yet in this session (see DESIGN.md section 4 for the planned structural clauses)"

CHECKS = {
    "C13": {
        "text": "Decides, for every mask / baseline set / image / matrix at once, the structural clauses of the direct Fourier transform: the accumulated term of each "
                "of the 7 DFT kernels equals the reference form I_p(cos(phi)+i sin(phi)), phi=-2pi(x_p u_k+y_p v_k) (adjoint: Re V cos(psi) - Im V sin(psi)) by equality of canonical "
                "polynomial normal forms computed from the source; loops cover the full pixel/baseline ranges onto zeros; only zero-tests guard matrix entries (linearity for signed matrices); "
                "preload and direct variants are wired to the same grid, baselines, tables and slim image; interferometer normal equations pair real with real and imaginary with imaginary parts. "
                "Not decided: floating-point accuracy, the NUFFT transformer, numerical agreement of outputs.",
        "note": "Trusted: Python ast, the E1 resolver, numpy elementwise/indexing semantics, cos/sin treated as uninterpreted functions, the reference forms written from the property statement.",
        "technique": "static analysis: abstract evaluation of kernels to polynomial normal forms (dataflow with joins) + canonical-form equality with reference; call-site argument agreement between sibling branches",
    },
}

NOT_APPLICABLE = {f"C{n:02d}": PENDING for n in range(1, 21) if f"C{n:02d}" not in CHECKS}
