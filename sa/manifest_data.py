"""Per-property manifest text: what is decided, what is not (kept next to the rules)."""

PENDING = "check not built yet in this session (see DESIGN.md section 4 for the planned structural clauses)"

CHECKS = {
    "C13": {
        "text": "Decides, for every mask / baseline set / image / matrix at once, the structural clauses of the direct Fourier transform: the accumulated term of each "
                "of the 7 DFT kernels equals the reference form I_p(cos(phi)+i sin(phi)), phi=-2pi(x_p u_k+y_p v_k) (adjoint: Re V cos(psi) - Im V sin(psi)) by equality of canonical "
                "polynomial normal forms computed from the source; loops cover the full pixel/baseline ranges onto zeros; only zero-tests guard matrix entries (linearity for signed matrices); "
                "preload and direct variants are wired to the same grid, baselines, tables and slim image, the two being the two arms of one test of preload_transform; the baselines the tables were computed from are a private copy "
                "(ownership tags), so tables and baselines cannot drift apart; interferometer normal equations pair real with real and imaginary with imaginary parts. "
                "Not decided: floating-point accuracy, the NUFFT transformer, numerical agreement of outputs.",
        "note": "Trusted: Python ast, the E1 resolver, numpy elementwise/indexing semantics, cos/sin treated as uninterpreted functions, the reference forms written from the property statement.",
        "technique": "static analysis: abstract evaluation of kernels to polynomial normal forms (dataflow with joins) + canonical-form equality with reference; call-site argument agreement between sibling branches",
    },
    "C03": {
        "text": "Decides the structural clauses of masked PSF blurring for every mask, odd kernel shape (non-square included) and signed kernel/image/matrix: frame construction is "
                "target = source - floor(K/2) + (i,j) per axis with each half-width taken from its own kernel dimension and paired with kernel[i,j] (flipped, centred convolution), recorded iff in-frame and "
                "unmasked, one slot per entry; the three scatter kernels accumulate value[a]*frame_kernel[a,r] into out[frame_index[a,r]] for exactly r < length[a] onto zeros with no other guard; the matrix "
                "variant is that operator per column with only a zero-test of the entry (holds for negative entries); image and blurring frames come from one routine on identical arguments; pixel numbering is "
                "slim-order; even kernels are rejected on both axes before any effect at the 4 entry points; whole-frame convolution is scipy convolve2d(native, kernel.native, 'same') slimmed on the mask it is returned on. "
                "The public wrappers (convolve_image / _no_blurring / convolve_mapping_matrix) return, on every path, the result of the matching kernel applied to the slim inputs with the convolver's own tables (no shortcut path); "
                "the simulator convolves with self.psf and the dataset it returns - and every dataset derived by apply_mask / apply_noise_scaling / apply_over_sampling - carries that very PSF and normalisation choice, and the "
                "dataset's convolver is built from its own mask and PSF (zero-residual clause, structurally). Not decided: numerical equality with scipy.",
        "note": "Trusted: Python ast, E1 resolver, numpy indexing semantics, scipy.signal.convolve2d, the reference forms.",
        "technique": "static analysis: abstract evaluation of kernels to polynomial normal forms + canonical-form equality; slim-traversal typestate; must-raise dominance; zero-test guard rule",
    },
    "C04": {
        "text": "Decides, for every mask, PSF shape (non-square, signed) and linear-object list, the structural clauses behind D = B^T N^-1 d and F = B^T N^-1 B: the w-tilde data term and overlap value "
                "index the native noise/image arrays at pixel + k - floor(K/2) with each axis shifted by its own kernel half-width (canonical-form equality), second kernel index bounded per axis, "
                "axis-pure no-overlap shortcut; the sparse overlap table enumerates the upper triangle, keeps every non-zero overlap (zero-test only), halves the diagonal iff the consumer adds the transpose, "
                "with exact slot / length / flat counters; unique-mapping kernels accumulate w0*w1*overlap into F[pix0,pix1] and w*w_tilde_data into D[pix]; mapping formalism is d*B/sigma^2 and (B/sigma)^T(B/sigma); "
                "the small diagonal term is added only at the no-regularization indices, only when that list is non-empty, at every call site; block offsets advance by params once per object, unconditionally. "
                "the mirror of the half-filled w-tilde matrix copies every non-zero entry to its own and to the transposed position over the full range. Not decided: numerical agreement of the two formalisms, symmetry to rounding, reconstruction equality.",
        "note": "Trusted: Python ast, E1 resolver, numpy indexing/broadcast semantics, np.dot, the reference forms.",
        "technique": "static analysis: abstract evaluation of kernels to polynomial normal forms + canonical-form equality; counter typestate; zero-test guard rule; call-site guard/argument rule over the resolved call graph",
    },
    "C01": {
        "text": "Decides, for every mask and value array, that slim index k is the k-th unmasked pixel in row-major order in every producer (7 gather / counting nests, 1-D and 2-D: counter from 0, +1 exactly once per unmasked "
                "pixel, full ranges with axis 0 outer, stores at the pre-increment counter), that each gather stores the value at the loop position into an array sized by the unmasked count of the same mask, that the "
                "3 scatters write slim entry k at native_index_for_slim_index[k] (row, column) for all k into zeros of the native shape, that slim->native composes the index list of the same mask, that masked / unmasked "
                "flattened-index lists come from one flag-parameterised nest recording the row-major flat index, that native inputs are multiplied by the inverted mask on every non-skip path of the three converters and that the converters hand back the input as it is / slimmed / expanded for each of the four (input form, store_native) combinations, that the "
                "10 .slim/.native properties re-enter the constructor on self.mask with store_native False/True, and that grid components are converted and re-stacked in (y, x) order. Values are only copied, so nothing numerical remains; "
                "trusted: numpy indexing/assignment and np.stack ordering.",
        "note": "Trusted: Python ast, E1 resolver, numpy basic indexing/assignment semantics. 1-D converters do not zero masked entries of a native input and the property does not ask them to.",
        "technique": "static analysis: slim-traversal typestate over abstract kernel summaries; canonical-form equality of stored payloads and scatter targets; guard dominance; constructor wiring rule",
    },
    "C02": {
        "text": "Decides, for all shapes, anisotropic pixel scales and origins at once, the closed form of every index/coordinate conversion by canonical-form equality with the formulas of the property statement: "
                "pixel centre y = oy + ((H-1)/2 - i)s0, x = ox + (j - (W-1)/2)s1 (2-D and 1-D, scalar and grid variants, grid from mask); central scaled coordinate +oy/s0, -ox/s1; index = int(inverse affine + 1/2); "
                "flattened index = row*W + col on integer coordinates of the same geometry; compositions centre->index->centre and scaled->pixels->scaled reduce to the identity by substitution of forms; "
                "Geometry2D/1D minima/maxima/extent = origin -/+ shape*scale/2 in (x_min, x_max, y_min, y_max) order; the five shape-mask constructors start all-masked and unmask [y, x] exactly under the documented "
                "radial inequality of the pixel-centre offset from `centre` (each ellipse with its own angle / axis ratio / radius); Geometry2D methods pass their own geometry triple; the 1-D grid from a mask holds x = ox + (x - (W-1)/2) s. "
                "Not decided: floating-point behaviour in the tie band, trigonometry of the elliptical radius (uninterpreted), containment of arbitrary query coordinates as numbers. The grid from mask has one row per unmasked pixel in row-major order (slim-counter typestate) and shape (unmasked pixels, 2).",
        "note": "Trusted: Python ast, E1 resolver, int() on non-negative arguments canonicalised with floor division, reference forms entered from the property statement.",
        "technique": "static analysis: polynomial-normal-form constant propagation over kernels and class-layer properties + canonical-form equality; composition by substitution; normalised guard comparison; keyword wiring rule",
    },
    "C09": {
        "text": "Decides, for every mask, per-pixel sub-size map, anisotropic scales and origin: the five over-sampling kernels traverse pixels in slim order and, inside each pixel, y1 outer / x1 inner over range(sub) with "
                "sub = sub_size[slim index], both counters advancing by exactly 1 at their own depth; the sub-pixel centre equals y = oy + ((H-1)/2 - y)s0 + s0/2 - (y1+1/2)s0/sub, x = ox + (x-(W-1)/2)s1 - s1/2 + (x1+1/2)s1/sub "
                "(canonical-form equality: uniform sub x sub partition, top-to-bottom then left-to-right); binning accumulates value[sub index]/sub^2 into out[slim index] onto zeros (the exact mean of the pixel's own sub-values); "
                "index tables hold the slim / native sub index; OverSamplerUniform hands its own mask, scales, sub-size map and mask origin to the kernels and returns on its mask; sub-pixel areas = area/sub^2 repeated sub^2 times; "
                "the decorator evaluates the undecorated function on over_sampled_grid and passes the result untouched to the binning, with plain evaluation when sub-size is 1; the iterative scheme's comparator (ratio lower/higher "
                "inverted when > 1, 0 unless lower > 0, < threshold; |difference| > tolerance; unmasked pixels only; value taken when newly resolved). Not decided: which level each pixel finally receives as a property of the "
                "whole loop over masks, what user functions do. Each accuracy test is made exactly when its own threshold is set, and the level loop is left early only when the new threshold mask is all true.",
        "note": "Trusted: Python ast, E1 resolver, numpy indexing semantics, reference forms from the property statement.",
        "technique": "static analysis: traversal typestate for slim and sub-pixel counters + polynomial-normal-form equality of stored payloads; pass-through / wiring rules on the class layer; normalised comparator structure; wiring decided on name-free path summaries (every path with its atomic conditions and the substituted value it returns)",
    },
    "C10": {
        "text": "Decides, for every mask (holes, several components, unmasked pixels on the outer ring) and odd kernel shape (non-square included): the blurring mask lays footprints range((-K+1)//2,(K+1)//2) per own kernel axis "
                "around unmasked pixels only, tests each footprint pixel against the bounds of its own array axis on both sides, unmasks only masked pixels, starts fully masked and raises MaskException on exactly the negated in-frame test; "
                "the edge test returns True iff one of the eight in-array neighbours is masked with every neighbour read bounds-guarded (a sliced variant must clamp its lower bound); the slim index reported for an edge pixel is counted over "
                "EVERY unmasked pixel of the full mask (traversal typestate), entries recorded iff unmasked and edge, sized by the same predicate; the border test is the four axis-direction walks with counts y, W-x-1, H-y-1, x along the "
                "pixel's own column/row; the border list is the edge list of the same mask filtered by it in order; native, mask and grid views all derive from the same slim lists. Not decided: nothing numerical - topology clauses reduce to these local definitions.",
        "note": "Trusted: Python ast, E1 resolver, numpy slicing / np.sum semantics.",
        "technique": "static analysis: abstract evaluation + normalised guard/bounds comparison; traversal typestate; must-raise; view wiring rule; wiring decided on name-free path summaries (every path with its atomic conditions and the substituted value it returns)",
    },
    "C11": {
        "text": "Decides, for every input and every access history at once, the ownership shape that makes the behaviour impossible to break, from a whole-project effect analysis (ownership tags parameter / field-of-self / cached-property value / "
                "preload slot / fresh, in-place writes per function, bottom-up to a fixpoint over the resolved call graph): no function writes in place into storage reachable from its parameters (20 listed in-place helpers excepted, whose "
                "every caller must hand them only arrays it allocated itself); no function writes into a cached property's value except write-then-evict of a value every implementation allocates freshly; fields of self are written in place "
                "only by constructors and never when the constructor chain (composed through super().__init__) stored a constructor argument there un-copied; no query rebinds or deletes fields of self (listed explicit setters excepted); a "
                "shallow clone whose contents are replaced - and item assignment, and every raw copy of the instance dict - drops every cached-property value; no array class stores a field computed from its contents at construction (derived objects "
                "share the instance dict); every draw from the global numpy RNG in a seeded function is unconditionally preceded by seeding with that seed, every caller forwards its seed, and the field holding it is the constructor argument itself. "
                "Not decided: value-level equality of repeated computations (numerical determinism of numpy / scipy / numba is assumed), aliasing through objects whose type the resolver cannot see.",
        "note": "Trusted: Python ast, E1 resolver, the table of numpy calls that return views vs copies (sa/effect.py), the listed in-place helpers (each with its reason). Known finding: MapperValued.values_masked.",
        "technique": "static analysis: interprocedural effect / ownership analysis (alias tags, mutation summaries to a fixpoint), who-may-write rules, clone / cache-drop typestate, must-precede rule for RNG seeding",
    },
    "C15": {
        "text": "Decides, for every combination of preload slots, both imaging formalisms, every list of linear objects and any number of inversions sharing one Preloads object: (write) no in-place write reaches a preload slot - directly, through "
                "any callee, or through a cached property some implementation of which may return the slot's array un-copied (effect analysis, so the in-place curvature+regularization sum provably works on a copy) - and no code outside "
                "Preloads rebinds a slot; (short-circuit) all 42 reads of slots are a presence test, the guarded early return of exactly the quantity the slot was recorded from (provenance read off the Preloads.set_* methods), or a "
                "substitution whose sibling branch computes that same quantity, so a finished preloaded value can never be processed a second time; a slot holding only the mapper part of a quantity stands for the whole only under an "
                "all-mappers condition; (wiring) the factory chooses the formalism from settings.use_w_tilde / preloads.use_w_tilde / object kinds only, settings win, no w-tilde without a mapper, both formalisms are built from the same dataset, "
                "objects and settings, the w-tilde object is the preloaded or the dataset's one and is checked against the fitted noise-map. Not decided: numerical agreement of the two formalisms (the algebra of C04) and of a user-supplied "
                "preload with the recomputed value (the property's premise).",
        "note": "Trusted: Python ast, E1 resolver, EFFECT engine tables. A genuine defect found by the short-circuit rule was repaired (fix 95ddc1d).",
        "technique": "static analysis: interprocedural effect / ownership analysis for writes to preload slots; provenance table extracted from setters + site classification of every slot read; factory wiring rules; wiring decided on name-free path summaries (every path with its atomic conditions and the substituted value it returns)",
    },
    "C05": {
        "text": "Decides partial correctness of the solvers, for every system and every combination of the solver settings: (solve) both entry points receive (F+H, D) in that order, LinAlgError / RuntimeError / ValueError become "
                "InversionException, `reconstruction` dispatches on use_positive_only_solver with the inversion's own system and settings, the warm start is the positive set of the unconstrained solution of the same system; (reduce) forced-zero "
                "parameters are removed from D and from both axes of F+H by one boolean selector and the solution is scattered back through it onto zeros, per-mapper pixel indices are shifted by param_range[0] exactly once; (data) both model-data "
                "kernels equal sum_j s_j M[i,j] as canonical forms over full ranges, slices of s advance by params of every object in list order, each object's model data is built from its own matrix / mappings and its own slice, the total "
                "is their sum; (state) fnnls_cholesky explored exhaustively as a finite typestate system (gradient w fresh w.r.t. d, d = copy of the least-squares solution on a passive set where it is positive and zero elsewhere, Cholesky "
                "factor rebuilt or updated for every change of the ordered passive list, P and the list in step) at every evaluation of the loop condition and at return, plus the contract of fix_constraint_cholesky; (chol) update / downdate "
                "kernels (found by their call sites, a merged kernel with a sign argument included) equal the Givens recurrences as canonical forms, insertion and deletion follow the block algebra of an upper-triangular factor; (settings) "
                "use_positive_only_solver / positive_only_uses_p_initial report an explicit True / False unchanged and fall back to the config only on None. With these invariants, leaving the loop through its condition is the KKT certificate. "
                "Not decided: termination, the max_repetitions stall exit, conditioning and floating-point error of scipy's solve / cholesky / cho_solve - i.e. optimality 'to numerical precision' itself.",
        "note": "Trusted: Python ast, E1 resolver, KEval; the Lawson-Hanson argument from invariants to KKT is mathematics, not checked by machine. A genuine defect (invalid warm start, non-optimal results for ~5-25% of systems with negative "
                "unconstrained entries) was found while building the state rule and repaired (fix a8b36c1); the rule reports the pre-fix code.",
        "technique": "static analysis: exhaustive exploration of a finite typestate abstraction of the active-set loop; canonical-form equality of kernels; call-site wiring and error-discipline rules; wiring decided on name-free path summaries (every path with its atomic conditions and the substituted value it returns)",
    },
    "C08": {
        "text": "Decides, for every dataset / mask / model: each of the 21 fit_util functions equals its definition as a canonical form (data - model, (r/n)^2, sum log(2 pi n^2), -(chi2+norm)/2, residual/data, "
                "evidence polarities -1/2(chi2 + sHs + logdet(F+H) - logdet(H) + norm)); every _with_mask_ variant restricts EVERY array operand by mask == 0 (where= + zero out=, or boolean selection) so masked values cannot reach a sum; "
                "each property of AbstractFit / FitDataset / FitInterferometer is wired to the util of the same name with same-named arguments, masked variant exactly under use_mask_in_fit with mask=self.mask, both modes present, and no subclass overrides a judged statistic except through that util or super(); "
                "figure of merit = evidence iff `inversion is not None`; the regularization term and both log-determinants are formed from the *_reduced quantities, which drop exactly the no-regularization rows and columns; "
                "signal_to_noise_map clips negatives on a fresh array only. Not decided: floating-point accuracy of determinants and sums.",
        "note": "Trusted: Python ast, E1 resolver, numpy ufunc where=/out= and boolean-mask selection semantics.",
        "technique": "static analysis: polynomial-normal-form evaluation of the definitions + canonical-form equality; definition-wiring rule over resolved calls and keyword bindings; branch-guard rule; wiring decided on name-free path summaries (every path with its atomic conditions and the substituted value it returns)",
    },
    "C16": {
        "text": "Decides the structural clauses of the FITS round trip for every shape / value / flip setting: the flip points (2-D HDU writer, 2-D file reader, flip_hdu_for_ds9) apply np.flipud exactly once under "
                "general.fits.flip_for_ds9 and return the unflipped value otherwise, the 1-D utils never flip; per class and per route (file / HDU) writer and reader apply the same number of flips (one for Array2D, Mask2D, Kernel2D, "
                "Visibilities, Grid2D; none for Array1D, Mask1D) with no raw flip elsewhere on the path; every PrimaryHDU / writeto is created in the designated utils (who-may-call); an existing file is removed before writing "
                "iff overwrite is requested and writeto never overwrites; os.makedirs is reached only for a non-empty, missing directory component; header keys written on reachable branches equal the keys the readers consume, every (key, value) of header_dict is written into the header the HDU is built from (guarded only by its None test), and "
                "every reader rebuilds with the header's pixel scale; writers hand over native values (masks as float), masks are converted back to booleans. Known finding (listed): anisotropic pixel scales are written as a single "
                "PIXSCALE because the PIXSCALEY/X branch is dead. Not decided: astropy's value fidelity.",
        "note": "Trusted: Python ast, E1 resolver and call graph, astropy.io.fits, os / os.path semantics.",
        "technique": "static analysis: flip-parity counting over the resolved call graph; who-may-call rule; guard dominance on os.remove / os.makedirs; dead-handler rule (transitive can-raise); header key agreement between writer and readers; wiring decided on name-free path summaries (every path with its atomic conditions and the substituted value it returns)",
    },
    "C17": {
        "text": "Decides, for every user function and input grid, the structural clauses that make entry k correspond to coordinate k: the three makers dispatch on exactly Grid2D / Grid2DIrregular / Grid1D; the user function "
                "receives the input grid itself (its radial projection for a Grid1D) plus the caller's extra arguments; its result reaches the container's values= with no intervening operation, element by element and in order for lists "
                "(pass-through), on the INPUT grid's mask (never a new one), with the grid / over-sampling carried along where the container takes them; project_grid evaluates on the radially projected grid with the profile's centre and "
                "angle + 90 used whenever they are not None (never by truthiness) and wraps in Array1D with the grid's pixel scale; relocate_to_radial_minimum scales rows with radius < minimum by minimum/radius and all others by the literal 1.0 "
                "on a new array, never writes into the caller's grid or a view of it, and evaluates the function on the relocated grid; transform applies the frame change once. Not decided: what user functions do; over-sampling interplay (C09).",
        "note": "Trusted: Python ast, numpy np.where / np.multiply semantics. These are syntactic pass-through / wiring rules over the decorator bodies; C01 supplies the slim-order meaning of 'entry k'.",
        "technique": "static analysis: pass-through and dispatch rules over the AST of the decorator layer; alias-based no-write-to-input rule; guard-form rule; wiring decided on name-free path summaries (every path with its atomic conditions and the substituted value it returns)",
    },
    "C18": {
        "text": "Decides, for every mask, sub-size map and source-plane coordinate set: in relocated_grid_via_jit_from the output starts as an element-wise copy of the input (same shape, row k -> row k) and the ONLY other store is "
                "dominated by both (radius from the border centroid > smallest border radius) and (move factor = nearest-border-point radius / point radius < 1) - interior points unchanged bit-for-bit, never outward; the moved point is "
                "factor*(p - c) + c with one centroid c (on its ray), radii and nearest point computed with both components from that same centroid (canonical-form equality); the sub-border search runs on the pixel-unit grid "
                "(scales (1,1), origin (0,0)) from the bounding-box centre ((max+min)/2), keeps the farthest (>=) candidate among the border pixel's OWN sub-pixels, one entry per border pixel in order; entry points relocate their argument "
                "grid against the border of the DATA grid argument at the sub-border indices (mesh vertices included); the relocation is skipped (input handed back) exactly for an empty border, and the mesh consults the relocator exactly when one is given. Not decided: the metric inequalities as numbers.",
        "note": "Trusted: Python ast, E1 resolver, numpy mean/min/argmin/sqrt semantics (uninterpreted).",
        "technique": "static analysis: abstract evaluation to polynomial normal forms + guard dominance on the single moving store; canonical-form equality; call-site wiring rule",
    },
    "C19": {
        "text": "Decides, for all shapes, regions, corners, windows and pixel ranges: per read-out corner the set of axes the array is reversed on (followed through views and copies) equals the set of axes whose region index pair is "
                "reflected, a reflection being exactly (shape[a] - hi, shape[a] - lo), and the four corners cover the four flip combinations - so rotating region and array commute and twice is the identity (axis reversal is an involution); "
                "front / trailing sub-regions (parallel, serial, 1-D; pixels and from-end modes) have the stated extents by canonical-form equality (front from the lower edge, trailing from the upper edge, from-end = the last E rows/columns "
                "of the right axis, other axis copied); Region1D/2D reject negative components and lo >= hi per axis; the interval clipping x0x1_after_extraction is decided EXHAUSTIVELY over the finite domain of the 13 weak orderings of its "
                "four inputs (every comparison is a difference of two inputs, so the path is a function of the ordering; the symbolic result per ordering equals the overlap shifted into window coordinates, absent when empty); the 2-D "
                "wrapper clips rows with components (0,1) and columns with (2,3) of both regions. Not decided: numpy slicing itself.",
        "note": "Trusted: Python ast, E1 resolver, numpy slicing with step -1 reverses an axis, valid inputs satisfy lo < hi (enforced by the Region constructors, which are checked).",
        "technique": "static analysis: abstract evaluation of class-layer methods to canonical forms; sibling agreement between array flips and region reflections; exhaustive abstract interpretation over a finite order domain",
    },
    "C20": {
        "text": "Decides, for all triangle sets: vertex-array up-sampling produces exactly the three corner children {v_k, m_ka, m_kb} and the central child {m_01, m_12, m_20}, m_ab = (v_a+v_b)/2 (set equality of canonical forms: exact 4-way tiling, "
                "quartered area, original vertices kept); the neighbourhood is the original set plus the three edge reflections v_a+v_b-v_k and nothing else; for the integer-coordinate representation the lattice geometry is verified "
                "ALGEBRAICALLY: with centre = scaling*c + offsets and vertex k = centre + flip*offset_k read from the class, the four children of a lattice triangle (coordinates 2c+d_j, side/2, new offsets, flip state) have exactly the vertex "
                "sets of its midpoint subdivision, and its three lattice neighbours are its edge reflections - identities in cx, cy, side, offsets, for both orientations; selection / conversion keep geometry (unique rows + inverse map, "
                "lattice parameters forwarded unchanged); Point.mask is the barycentric test with all three coordinates in [0,1] and every Shape.mask override ORs in super().mask(triangles). "
                "Not decided: floating-point tolerance for coincident vertices (np.unique), the mesh generated by for_limits_and_scale.",
        "note": "Trusted: Python ast, E1 resolver, numpy stack / concatenate / unique semantics, parity arithmetic of the lattice offsets (done by the rule on integers).",
        "technique": "static analysis: abstract evaluation to canonical forms with set-of-children comparison; algebraic verification of the lattice identities by polynomial normal forms; override-chain rule; wiring decided on name-free path summaries (every path with its atomic conditions and the substituted value it returns)",
    },
    "C06": {
        "text": "Decides, for every mask, sub-size map and source-plane coordinate set: the dense mapping matrix accumulates sub_fraction[data pixel]*weight[sub pixel, slot] into (data pixel, source pixel) over every sub-pixel and filled slot onto zeros; "
                "the unique representation accumulates the SAME term (adding on a repeat source pixel) over exactly the sub_size[ip]^2 sub-pixels of data pixel ip located by a running offset that starts at 0 and advances by sub_size[ip]^2 once "
                "per data pixel (so per-pixel sub-size maps are handled), with exact slot memory / distinct-pixel count / lengths - hence it encodes the same matrix; Delaunay weights are, for vertex k, the area of (point, the two OTHER vertices) "
                "divided by the sum of exactly those three areas, applied iff a containing simplex exists (second slot != -1, source pixel 0 is a valid vertex) and the single nearest vertex gets weight 1 outside the hull; rectangular mappers "
                "index the mesh with the mesh's own (shape_native, pixel_scales, origin), weight 1, size 1; dense and unique forms are wired to the same mapper tables; sub_fraction = 1/sub_size^2; both mesh classes hand MapperGrids the "
                "very relocated data grid their mesh was built from (straight-line value identity); rectangular neighbour lists are exactly the 4-connectivity of the R x C grid (each of the six class helpers writes, for pixel p = row*C + col of its class, "
                "exactly the in-frame members of p-C, p-1, p+1, p+C and their number; the classes partition the grid; hence the lists are symmetric) and Delaunay lists are scipy's vertex adjacency copied row by row. Not decided: non-negativity / row sums as numbers, "
                "scipy's find_simplex containment, Voronoi neighbours (external library).",
        "note": "Trusted: Python ast, E1 resolver, numpy fancy indexing A[idx][k] = A[idx[k]], scipy.spatial.Delaunay.",
        "technique": "static analysis: abstract evaluation of kernels to polynomial normal forms + canonical-form equality (sibling agreement between the dense and unique encodings); running-offset typestate; call-site wiring",
    },
    "C07": {
        "text": "Decides, for all meshes, coefficients and adapt images, the structural clauses behind symmetric PSD regularization with the stated quadratic form: each neighbour / split util assembles its matrix by EXACTLY the reference set of "
                "updates (canonical forms, loop variables renamed by depth): constant and constant-zeroth have the Laplacian shape (+c on [i,i], -c on [i,n] per neighbour with the same c = coefficient^2; 1e-8 ridge once per row), so x^T H x = "
                "c * sum (x_i - x_j)^2 + ridge GIVEN symmetric neighbour lists; the weighted scheme applies the four symmetric updates with w_n^2 (symmetric by construction, pair weight w_i^2 + w_j^2 over a symmetric list); the split scheme mirrors every "
                "update [a,b] / [b,a] with one value and halves the doubly counted diagonal once; zeros initially and the right size; kernel covariances add k(|p_i - p_j|) over all pairs on top of the diagonal ridge and the matrix is coefficient * inv(cov) "
                "of the object's own mesh points; adaptive weights are (inner*s + outer*(1-s))^2 and each scheme feeds its util with its own coefficients, the object's own neighbours / split tables (never cached, since reg_split_from mutates them) and its own "
                "reported weights; an object without regularization contributes np.zeros((params, params)); blocks are assembled by scipy block_diag over linear_obj_list in order, unfiltered. Not decided: positive-definiteness of coefficient * inv(cov), "
                "determinants, symmetry of the neighbour lists themselves (C06 declined).",
        "note": "Trusted: Python ast, E1 resolver, scipy.linalg.block_diag, np.linalg.inv. Quadratic-form statements are conditional on symmetric neighbour lists.",
        "technique": "static analysis: abstract evaluation of kernels + set equality of canonical update forms (update-shape rule); scheme-to-util wiring; no-cache side condition; block assembly rule; wiring decided on name-free path summaries (every path with its atomic conditions and the substituted value it returns)",
    },
    "C14": {
        "text": "Decides, for all source / target shapes, kernels, masks, scales, origins: resized_array_2d_from copies destination (i, j) from source (i + floor(H/2) - floor(R0/2), j + floor(W/2) - floor(R1/2)) exactly when inside both arrays (each index "
                "tested against its own axis), writes pad_value exactly when the source cell is outside, spans 2 floor(R/2) + 1 >= R destination cells, and returns the requested shape; a parity case analysis of the computed offset form shows "
                "offset = (N - R)/2 whenever parity is preserved - the condition for a surviving pixel to keep its scaled coordinate under the C02 centre formula; padding enlarges each axis by its own K - 1, trimming cuts ceil(K/2) - 1 per own axis, "
                "and pad-then-trim for odd K is the identity window with the mask cropped by the same offset (parity algebra); Array2D / Mask2D resize rebuild on the parent's pixel scales AND origin, and the one resize util is the sole producer of the returned values / mask on every path (no second placement arithmetic); the automatic padding in Imaging pads data and noise map "
                "identically; the zoom window is never shifted (cell (i, j) = source (y0 + i, x0 + j) when it exists), equals zoom region +/- buffer, and the zoom region is the bounding box of the unmasked pixels, only ever widened. "
                "Not decided: the half-pixel choice for mixed parities (left open by the property).",
        "note": "Trusted: Python ast, E1 resolver, numpy slicing, int(x/2) = floor(x/2) for non-negative extents.",
        "technique": "static analysis: abstract evaluation to polynomial normal forms; exhaustive parity-domain case analysis of floor-division forms; normalised bounds comparison; wiring rule",
    },
    "C12": {
        "text": "Decides the structural clauses of translation covariance for all masks, scales and origin pairs: (G1) at every one of the ~170 calls of a coordinate-origin callable (the 67 constructors / utils with an `origin` parameter), whenever the "
                "parent's geometry or the caller's own origin parameter is in scope, `origin` is passed on - omission (default (0,0)) is a violation; the only exceptions are single named sites with a reason (PSF kernels, layout windows, 1-D projections, "
                "an escape-filtered temporary) and a few sites outside the entry points C12 names, printed as NOTE lines; (G2) the origin passed on is point-kinded: X.origin, an origin parameter, X.mask_centre, a midpoint of two coordinates, or a tuple "
                "whose k-th element is origin component k plus component-k displacements (axis purity); (covariance) for the util layer, substituting origin -> origin + d (and coordinate inputs -> inputs + d) in the computed canonical forms shifts every "
                "coordinate output by exactly d and leaves every index output unchanged - grid from mask, over-sampled grid, scaled<->pixel conversions, Geometry2D extent / minima / maxima; (derived) mask centre, derived grids, sub-grids, mesh-pixel "
                "counts and radial projections re-pass the parent's shape, scales and origin; geometry derived from the extrema of a coordinate grid (rectangular mesh overlay) has its centre shifted by exactly d and its size unchanged under "
                "substitution of extrema -> extrema + d. Not decided: covariance of quantities that pass through scipy (griddata, Delaunay), numerical equality. Every sum that an `X.origin` attribute enters directly (outside the coordinate utils) counts the origin exactly +1, or -1 against a point.",
        "note": "Trusted: Python ast, E1 resolver (a call it cannot resolve to a project callable is not a G1 site; counted), reference notion of point / vector kinds.",
        "technique": "static analysis: who-passes-what rule over every resolved call of an origin-bearing callable; point / vector kind checking with axis purity; translation substitution on polynomial normal forms",
    },
}

NOT_APPLICABLE = {f"C{n:02d}": PENDING for n in range(1, 21) if f"C{n:02d}" not in CHECKS}
