"""E8 - small structural matchers over resolved calls and keyword bindings."""
from __future__ import annotations

import ast
from typing import Dict, List, Optional, Tuple, Iterable

from .model import Project, FuncInfo, ClassInfo, norm_text, unparse, CALL_CTX


def calls_to(p: Project, f: FuncInfo, callee_key: Optional[str] = None, name: Optional[str] = None) -> List[ast.Call]:
    """Calls inside f that resolve to the project function `callee_key` ('mod:qual'), or - when given - whose attribute / name is `name`."""
    out = []
    for c in f.calls():
        tg = p.resolve_call(c, f)
        if callee_key is not None and any(t.key == callee_key for t in tg):
            out.append(c)
        elif name is not None and not tg:
            fn = c.func
            nm = fn.attr if isinstance(fn, ast.Attribute) else (fn.id if isinstance(fn, ast.Name) else None)
            if nm == name:
                out.append(c)
        elif name is not None and any(t.name == name for t in tg):
            out.append(c)
    return sorted(out, key=lambda c: (c.lineno, c.col_offset))


def kw(call: ast.Call, callee: Optional[FuncInfo] = None) -> Dict[str, ast.expr]:
    """keyword (or, with a callee, bound) arguments of a call.  An argument that is a temporary bound once, read once, in the statements right before the call's statement
    (`_t = g(x); f(a=_t)`) is reported as the expression it stands for: introducing or removing such a temporary does not change what a rule sees."""
    if callee is not None:
        b, _ = Project.bind(call, callee)
    else:
        b = {k.arg: k.value for k in call.keywords if k.arg}
        # positional arguments are reported under the parameter names of the callee when the callee resolves unambiguously: f(x, y) and f(a=x, b=y) look the same to a rule
        ctx = CALL_CTX.get(id(call))
        if ctx is not None and call.args and not any(isinstance(a, ast.Starred) for a in call.args):
            try:
                tg = ctx[0].resolve_call(call, ctx[1])
            except Exception:
                tg = []
            names = {tuple(t.call_params[:len(call.args)]) for t in tg if len(t.call_params) >= len(call.args)}
            if tg and len(names) == 1 and all(len(t.call_params) >= len(call.args) for t in tg):
                for nm, a in zip(next(iter(names)), call.args):
                    b.setdefault(nm, a)
    return {k: see_through(call, v) for k, v in b.items()}


_FN_INDEX: Dict[int, tuple] = {}


def _fn_index(fn: ast.AST):
    """per function (cached on the node): name -> (stores, loads) in the function's own scope, statement -> (block, position), expression node -> statement"""
    idx = _FN_INDEX.get(id(fn))
    if idx is not None and idx[5] is fn:
        return idx
    stores: Dict[str, List[ast.AST]] = {}
    loads: Dict[str, int] = {}
    banned = {a.arg for a in fn.args.posonlyargs + fn.args.args + fn.args.kwonlyargs} | ({fn.args.vararg.arg} if fn.args.vararg else set()) | ({fn.args.kwarg.arg} if fn.args.kwarg else set())
    where: Dict[int, Tuple[list, int]] = {}
    stmt_of: Dict[int, ast.stmt] = {}

    def walk(n, stmt, inner):
        for fld, val in ast.iter_fields(n):
            if isinstance(val, list) and val and isinstance(val[0], ast.stmt):
                for k, st in enumerate(val):
                    where[id(st)] = (val, k)
        for ch in ast.iter_child_nodes(n):
            sub = inner or isinstance(ch, (ast.FunctionDef, ast.AsyncFunctionDef, ast.Lambda, ast.ClassDef, ast.ListComp, ast.SetComp, ast.DictComp, ast.GeneratorExp))
            cur = ch if isinstance(ch, ast.stmt) else stmt
            if not isinstance(ch, ast.stmt) and cur is not None:
                stmt_of[id(ch)] = cur
            if isinstance(ch, ast.Name):
                if sub:
                    banned.add(ch.id)
                elif isinstance(ch.ctx, ast.Load):
                    loads[ch.id] = loads.get(ch.id, 0) + 1
                else:
                    stores.setdefault(ch.id, []).append(cur)
            if isinstance(ch, (ast.Global, ast.Nonlocal)):
                banned.update(ch.names)
            walk(ch, cur, sub)
    walk(fn, None, False)
    _FN_INDEX[id(fn)] = (stores, loads, banned, where, stmt_of, fn)   # the node itself is kept so that a recycled id is never mistaken for it
    return _FN_INDEX[id(fn)]


def see_through(anchor: ast.AST, e: ast.expr, depth: int = 4) -> ast.expr:
    """if e is a single-use temporary defined in the statements immediately before the statement that contains `anchor`, the expression it was bound to"""
    _c = CALL_CTX.get(id(anchor))
    fn = _c[1].node if _c is not None else None
    while depth > 0 and fn is not None and isinstance(e, ast.Name) and isinstance(e.ctx, ast.Load):
        stores, loads, banned, where, stmt_of, _ = _fn_index(fn)
        x = e.id
        if x in banned or loads.get(x, 0) != 1 or len(stores.get(x, [])) != 1:
            break
        d = stores[x][0]
        if not (isinstance(d, ast.Assign) and len(d.targets) == 1 and isinstance(d.targets[0], ast.Name)):
            break
        use_stmt = stmt_of.get(id(e)) or stmt_of.get(id(anchor))
        if use_stmt is None or id(use_stmt) not in where or id(d) not in where:
            break
        blk, k = where[id(use_stmt)]
        blk_d, kd = where[id(d)]
        if blk_d is not blk or kd >= k:
            break
        # everything between the definition and the use is itself the definition of such a temporary (a run of temporaries right before the call)
        between_ok = True
        for st in blk[kd + 1:k]:
            if not (isinstance(st, ast.Assign) and len(st.targets) == 1 and isinstance(st.targets[0], ast.Name) and loads.get(st.targets[0].id, 0) == 1 and len(stores.get(st.targets[0].id, [])) == 1):
                between_ok = False
        if not between_ok:
            break
        e = d.value
        depth -= 1
    return e


def kwtext(call: ast.Call, callee: Optional[FuncInfo] = None) -> Dict[str, str]:
    return {k: norm_text(v) for k, v in kw(call, callee).items()}


def strip_np_array(e: ast.expr) -> ast.expr:
    """np.array(X) / np.asarray(X) / X.array -> X (value-preserving wrappers)."""
    while True:
        if isinstance(e, ast.Call) and isinstance(e.func, ast.Attribute) and isinstance(e.func.value, ast.Name) and e.func.value.id in ("np", "numpy") \
                and e.func.attr in ("array", "asarray") and len(e.args) == 1 and not e.keywords:
            e = e.args[0]
            continue
        if isinstance(e, ast.Attribute) and e.attr in ("array", "_array"):
            e = e.value
            continue
        return e


def enclosing_branches(f: FuncInfo, node: ast.AST) -> List[Tuple[ast.If, bool]]:
    """The chain of (If statement, in_body?) that encloses `node` inside f."""
    path: List[Tuple[ast.If, bool]] = []

    def walk(stmts, acc) -> bool:
        for st in stmts:
            if st is node or any(sub is node for sub in ast.walk(st)):
                if isinstance(st, ast.If):
                    if any(sub is node for b in st.body for sub in ast.walk(b)):
                        return walk(st.body, acc + [(st, True)])
                    if any(sub is node for b in st.orelse for sub in ast.walk(b)):
                        return walk(st.orelse, acc + [(st, False)])
                    path.extend(acc)
                    return True
                for fld in ("body", "orelse", "finalbody"):
                    sub = getattr(st, fld, None)
                    if isinstance(sub, list) and sub and isinstance(sub[0], ast.stmt):
                        if any(x is node for b in sub for x in ast.walk(b)):
                            return walk(sub, acc)
                if isinstance(st, ast.Try):
                    for h in st.handlers:
                        if any(x is node for b in h.body for x in ast.walk(b)):
                            return walk(h.body, acc)
                path.extend(acc)
                return True
        return False

    walk(f.node.body, [])
    return path


def resolve_local(f: FuncInfo, e: ast.expr, depth: int = 3) -> ast.expr:
    """a local name that is bound exactly once in f (and is not a parameter) stands for the expression it was bound to"""
    while depth > 0 and isinstance(e, ast.Name):
        asg = [n for n in f.body_nodes() if isinstance(n, (ast.Assign, ast.AugAssign, ast.AnnAssign, ast.For)) and any(isinstance(t, ast.Name) and t.id == e.id for t in _targets(n))]
        if len(asg) != 1 or not isinstance(asg[0], ast.Assign) or len(asg[0].targets) != 1 or not isinstance(asg[0].targets[0], ast.Name):
            break
        if e.id in f.all_params and not (getattr(e, "lineno", 0) > asg[0].lineno and not enclosing_branches(f, asg[0])):
            break   # a parameter stands for its rebinding only after an unconditional `p = g(p)`
        e = asg[0].value
        depth -= 1
    return e


def _targets(n):
    ts = n.targets if isinstance(n, ast.Assign) else [n.target]
    out = []

    def add(t):
        if isinstance(t, ast.Name):
            out.append(t)
        elif isinstance(t, (ast.Tuple, ast.List)):
            for e in t.elts:
                add(e)
        elif isinstance(t, ast.Starred):
            add(t.value)
        elif isinstance(t, (ast.Subscript, ast.Attribute)):
            # A[i] = v / A.x = v write into A; the index expression is only read.  A store through an attribute (`self.x = v`, `self.x[i] = v`) is recorded
            # against that attribute (`self.x`) so that it does not count as a change of every other attribute of the object
            b = t
            first_attr = None
            while isinstance(b, (ast.Subscript, ast.Attribute)):
                if isinstance(b, ast.Attribute) and isinstance(b.value, ast.Name):
                    first_attr = b.attr
                b = b.value
            if isinstance(b, ast.Name):
                if first_attr is not None:
                    out.append(ast.copy_location(ast.Name(id=f"{b.id}.{first_attr}", ctx=ast.Store()), b))
                else:
                    out.append(b)
    for t in ts:
        add(t)
    return out


def inline_locals(f: FuncInfo, e: ast.expr, depth: int = 5, unpack: bool = False) -> ast.expr:
    """a copy of e in which every local name that is bound exactly once in f (by a plain assignment, not a loop / with / augmented assignment, not a parameter) is replaced,
    recursively, by the expression it was bound to: the name-free form of e.  Names bound several times, parameters and loop variables stay.
    A temporary is only replaced when that cannot change what is read: no name its expression reads is bound or written into between the temporary's assignment and
    the use (`t = d[q]; d = ...; use(t)` keeps `t`)."""
    import copy
    cache_name = "_sa_single_unpack" if unpack else "_sa_single"
    cache = getattr(f, cache_name, None)
    if cache is None:
        binds: Dict[str, List[ast.AST]] = {}
        for n in f.body_nodes():
            if isinstance(n, (ast.Assign, ast.AugAssign, ast.AnnAssign, ast.For, ast.With, ast.NamedExpr, ast.comprehension)):
                for x in _targets(n) if isinstance(n, (ast.Assign, ast.AugAssign, ast.AnnAssign, ast.For)) else [y for y in ast.walk(n) if isinstance(y, ast.Name) and isinstance(y.ctx, ast.Store)]:
                    binds.setdefault(x.id, []).append(n)
        single = {k: v[0] for k, v in binds.items() if len(v) == 1 and isinstance(v[0], ast.Assign) and len(v[0].targets) == 1 and isinstance(v[0].targets[0], ast.Name) and k not in f.all_params}
        # a, b = X  (X not a tuple display) binds a to X[0], b to X[1];  a, b = p, q binds elementwise
        for k, v in (binds.items() if unpack else ()):
            if len(v) == 1 and isinstance(v[0], ast.Assign) and len(v[0].targets) == 1 and isinstance(v[0].targets[0], (ast.Tuple, ast.List)) and k not in f.all_params and k not in single:
                tg = v[0].targets[0]

                def path_to(t, name):
                    """positions leading to `name` inside a (possibly nested) tuple target, None if it is not there / a starred target is in the way"""
                    if isinstance(t, ast.Name):
                        return [] if t.id == name else None
                    if isinstance(t, (ast.Tuple, ast.List)) and not any(isinstance(x, ast.Starred) for x in t.elts):
                        for i_, x in enumerate(t.elts):
                            pth = path_to(x, name)
                            if pth is not None:
                                return [(i_, len(t.elts))] + pth
                    return None
                pth = path_to(tg, k)
                if pth:
                    item = v[0].value
                    for pos, n_ in pth:
                        if isinstance(item, (ast.Tuple, ast.List)) and len(item.elts) == n_ and not any(isinstance(e_, ast.Starred) for e_ in item.elts):
                            item = item.elts[pos]
                        else:
                            item = ast.copy_location(ast.Subscript(value=item, slice=ast.Constant(value=pos), ctx=ast.Load()), v[0].value)
                    syn = ast.copy_location(ast.Assign(targets=[ast.Name(id=k, ctx=ast.Store())], value=item), v[0])
                    syn._orig = v[0]   # (its place in the statement order is that of the unpacking statement)
                    single[k] = syn
                    binds[k] = [syn]
        loops = [n for n in f.body_nodes() if isinstance(n, (ast.For, ast.While))]
        cache = (single, binds, loops)
        setattr(f, cache_name, cache)
    single, binds, loops = cache
    use_line = getattr(e, "lineno", None)
    oc = getattr(f, "_sa_order", None)
    if oc is None:
        order = {id(n): i for i, n in enumerate(f.body_nodes())}
        spans = []
        for l in loops:
            if id(l) in order:
                spans.append((order[id(l)], max([order[id(x)] for x in ast.walk(l) if id(x) in order] or [order[id(l)]])))
        oc = (order, spans)
        f._sa_order = oc
    order, spans = oc
    own_stmt = {id(b) for b in f.body_nodes() if isinstance(b, ast.Assign) and (b.value is e or any(x is e for x in ast.walk(b.value)))}

    def fresh(name: str) -> bool:
        """may the single-assignment temporary `name` be replaced by its expression at the use?"""
        a = single[name]
        la = a.lineno
        reads = set()
        attr_bases = {id(n.value) for n in ast.walk(a.value) if isinstance(n, ast.Attribute) and isinstance(n.value, ast.Name)}
        # (names bound by a comprehension inside the expression are its own: nothing outside can make them stale)
        own = {x.id for c_ in ast.walk(a.value) if isinstance(c_, ast.comprehension) for x in ast.walk(c_.target) if isinstance(x, ast.Name)}
        for n in ast.walk(a.value):
            if isinstance(n, ast.Name) and n.id in own:
                continue
            if isinstance(n, ast.Attribute) and isinstance(n.value, ast.Name) and n.value.id in own:
                continue
            if isinstance(n, ast.Attribute) and isinstance(n.value, ast.Name):
                reads.add(n.value.id)
                reads.add(f"{n.value.id}.{n.attr}")
            elif isinstance(n, ast.Name) and id(n) not in attr_bases:
                # the object itself is read (passed on, indexed): any attribute store into it may matter
                reads.add(n.id)
                reads.update(k for k in binds if k.startswith(n.id + "."))
        pa, pu = order.get(id(getattr(a, "_orig", a))), order.get(id(e))
        for y in reads:
            for b in binds.get(y, ()):
                if b is a:
                    continue
                pb = order.get(id(getattr(b, "_orig", b)))
                if pa is not None and pu is not None and pb is not None:
                    # statement order (pre-order position in the function): also orders statements that share a line, e.g. the spliced body of an inlined helper
                    def common_loop(p1, p2):
                        return any(s_ <= p1 <= e_ and s_ <= p2 <= e_ for s_, e_ in spans)
                    if pb < pa and not common_loop(pb, pa):
                        continue   # bound before the temporary was computed (and not in a loop around it)
                    if pb > pu and not common_loop(pb, pu):
                        continue   # bound after the use, and no loop carries it back
                    if isinstance(b, ast.For) and pb < pa:
                        continue   # loop variable of a loop that encloses both
                    if isinstance(b, ast.Assign) and id(b) in own_stmt and not any(s_ <= pb <= e_ and not (s_ <= pa <= e_) for s_, e_ in spans):
                        continue   # bound by the very statement whose right-hand side holds the use
                    return False
                lb = getattr(b, "lineno", la)
                if lb < la and not any(l.lineno <= lb <= getattr(l, "end_lineno", lb) and l.lineno <= la <= getattr(l, "end_lineno", la) for l in loops):
                    continue   # bound before the temporary was computed (and not in a loop around it)
                if use_line is not None and lb > use_line and not any(l.lineno <= lb <= getattr(l, "end_lineno", lb) and l.lineno <= use_line <= getattr(l, "end_lineno", use_line) for l in loops):
                    continue   # bound after the use, and no loop carries it back
                if isinstance(b, ast.For) and lb < la:
                    continue   # loop variable of a loop that encloses both
                if isinstance(b, ast.Assign) and id(b) in own_stmt and not any(l.lineno <= lb <= getattr(l, "end_lineno", lb) and not (l.lineno <= la <= getattr(l, "end_lineno", la)) for l in loops):
                    continue   # bound by the very statement whose right-hand side holds the use: the right-hand side is evaluated first (a loop around it also recomputes the temporary)
                return False
        return True

    class T(ast.NodeTransformer):
        def __init__(self, d):
            self.d = d

        def visit_Name(self, n):
            if isinstance(n.ctx, ast.Load) and n.id in single and self.d > 0 and fresh(n.id):
                return T(self.d - 1).visit(copy.deepcopy(single[n.id].value))   # (names inside keep the positions of the binding statement)
            return n

        def visit_Subscript(self, n):
            n = self.generic_visit(n)
            # (p, q)[0] is p: an element of a tuple display that a temporary stood for
            if unpack and isinstance(n.value, (ast.Tuple, ast.List)) and isinstance(n.slice, ast.Constant) and isinstance(n.slice.value, int) and not isinstance(n.slice.value, bool) \
                    and 0 <= n.slice.value < len(n.value.elts) and not any(isinstance(x, ast.Starred) for x in n.value.elts):
                return n.value.elts[n.slice.value]
            return n
    return T(depth).visit(copy.deepcopy(e))



def range_pairing(f: FuncInfo, loop: ast.For) -> Optional[dict]:
    """`for (rng, obj) in zip(RANGES, OBJECTS)` over the inversion's parameter ranges: which objects are paired with which ranges?
    RANGES = self.param_range_list_from(cls=X) holds one range per instance of X, in list order; it is index-aligned with OBJECTS when OBJECTS is the whole
    self.linear_obj_list and X is LinearObj (every object), or when OBJECTS is self.cls_list_from(cls=X) for the SAME X (the instances of X, in list order).
    Returns {rng, obj, cls, filtered, sound} or None when the loop is not such a pairing.  Temporaries are read through; the zip arguments may come in either order."""
    it = inline_locals(f, loop.iter)
    if not (isinstance(it, ast.Call) and isinstance(it.func, ast.Name) and it.func.id == "zip" and len(it.args) == 2 and not it.keywords):
        return None
    if not (isinstance(loop.target, (ast.Tuple, ast.List)) and len(loop.target.elts) == 2 and all(isinstance(e, ast.Name) for e in loop.target.elts)):
        return None
    out = {"rng": None, "obj": None, "cls": None, "objs": None}
    for a, t in zip(it.args, loop.target.elts):
        if isinstance(a, ast.Call) and isinstance(a.func, ast.Attribute) and norm_text(a.func.value) == "self" and a.func.attr == "param_range_list_from":
            b = kw(a)
            c = b.get("cls") or (a.args[0] if a.args else None)
            out["rng"], out["cls"] = t.id, norm_text(c) if c is not None else None
        elif norm_text(a) == "self.linear_obj_list":
            out["obj"], out["objs"] = t.id, ("all", None)
        elif isinstance(a, ast.Call) and isinstance(a.func, ast.Attribute) and norm_text(a.func.value) == "self" and a.func.attr == "cls_list_from":
            b = kw(a)
            c = b.get("cls") or (a.args[0] if a.args else None)
            if b.get("cls_filtered") is None and len(a.args) <= 1:
                out["obj"], out["objs"] = t.id, ("cls", norm_text(c) if c is not None else None)
    if out["rng"] is None or out["obj"] is None:
        return None
    kind, oc = out["objs"]
    out["filtered"] = kind == "cls"
    out["sound"] = (kind == "all" and out["cls"] == "LinearObj") or (kind == "cls" and oc is not None and oc == out["cls"])
    return out


def see_name(f: FuncInfo, e: ast.expr) -> ast.expr:
    """if e is a bare single-assignment temporary that inline_locals would replace, the expression it was bound to (one step only: names inside stay as written); else e"""
    for _ in range(4):
        if not isinstance(e, ast.Name):
            break
        r = inline_locals(f, e, depth=1)
        if isinstance(r, ast.Name) and r.id == e.id:
            break
        e = r
    return e


def kwr(f: FuncInfo, call: ast.Call, callee: Optional[FuncInfo] = None, unpack: bool = False) -> Dict[str, str]:
    """keyword (bound) arguments of a call as name-free normalised text: single-assignment locals inlined, np.array(...) wrappers stripped
    (unpack: also names bound by a tuple assignment `a, b = X`, which become X[0], X[1])"""
    return {k: norm_text(strip_np_array(inline_locals(f, v, unpack=unpack)), limit=2000) for k, v in kw(call, callee).items()}


class _NoKw(ast.NodeTransformer):
    def visit_Call(self, n):
        self.generic_visit(n)
        if n.keywords and all(k.arg is not None for k in n.keywords):
            return ast.Call(func=n.func, args=list(n.args) + [k.value for k in n.keywords], keywords=[])
        return n


def text_nokw(e: ast.AST) -> str:
    """normalised text with every keyword argument written positionally (in the order it stands in the call): `f(a=x)` and `f(x)` read the same.
    Calls to project functions are keywordised in parameter order when the project is loaded, so for them this is the all-positional spelling."""
    import copy
    return norm_text(_NoKw().visit(copy.deepcopy(e)), 400)


def is_value_of(f: FuncInfo, e: ast.expr, target: ast.AST) -> bool:
    """e denotes the value of `target` (a call / expression node of f): it is that node, or a local name bound exactly once, to it (looked through repeatedly)"""
    return resolve_local(f, e, depth=4) is target or e is target


def branch_conds(f: FuncInfo, node: ast.AST) -> List[Tuple[str, bool]]:
    """enclosing_branches as (normalised text of the condition, truth value it has on the way to `node`), with a leading `not` folded into the truth value"""
    out = []
    for i, taken in enclosing_branches(f, node):
        t = i.test
        while isinstance(t, ast.UnaryOp) and isinstance(t.op, ast.Not):
            t, taken = t.operand, not taken
        out.append((norm_text(t).replace('"', "'"), taken))
    return out


def _terminates(body) -> bool:
    if not body:
        return False
    last = body[-1]
    if isinstance(last, (ast.Return, ast.Raise, ast.Continue, ast.Break)):
        return True
    if isinstance(last, ast.If):
        return _terminates(last.body) and _terminates(last.orelse)
    return False


def path_conds(f: FuncInfo, node: ast.AST, inline: bool = False) -> List[Tuple[str, bool]]:
    """the conditions that hold on the way to `node`: the enclosing branches, plus, for every earlier `if C: ... return / raise` in an enclosing block, C being false
    (after canonicalisation an else that follows such a branch is written as the statements after the if).  A leading `not` is folded into the truth value."""
    out: List[Tuple[str, bool]] = []

    def fold(t, truth):
        while isinstance(t, ast.UnaryOp) and isinstance(t.op, ast.Not):
            t, truth = t.operand, not truth
        if inline:
            # name-free: a test held in a single-assignment temporary is the expression it was bound to
            t = inline_locals(f, t)
            while isinstance(t, ast.UnaryOp) and isinstance(t.op, ast.Not):
                t, truth = t.operand, not truth
        return (norm_text(t, limit=2000).replace('"', "'"), truth)

    def push(t, truth):
        """a conjunction that holds / a disjunction that fails is the list of its parts"""
        while isinstance(t, ast.UnaryOp) and isinstance(t.op, ast.Not):
            t, truth = t.operand, not truth
        if isinstance(t, ast.BoolOp) and ((isinstance(t.op, ast.And) and truth) or (isinstance(t.op, ast.Or) and not truth)):
            for v in t.values:
                push(v, truth)
        else:
            out.append(fold(t, truth))

    def walk(stmts) -> bool:
        for k, st in enumerate(stmts):
            inside = st is node or any(sub is node for sub in ast.walk(st))
            if not inside:
                if isinstance(st, ast.If) and not st.orelse and _terminates(st.body):
                    push(st.test, False)
                continue
            if isinstance(st, ast.If):
                if any(sub is node for sub in ast.walk(st.test)):
                    return True
                if any(sub is node for b in st.body for sub in ast.walk(b)):
                    push(st.test, True)
                    return walk(st.body)
                push(st.test, False)
                return walk(st.orelse)
            for fld in ("body", "orelse", "finalbody"):
                sub = getattr(st, fld, None)
                if isinstance(sub, list) and sub and isinstance(sub[0], ast.stmt) and any(x is node for b in sub for x in ast.walk(b)):
                    return walk(sub)
            if isinstance(st, ast.Try):
                for h in st.handlers:
                    if any(x is node for b in h.body for x in ast.walk(b)):
                        return walk(h.body)
            return True
        return False
    mark = len(out)
    walk(f.node.body)
    return out


_NEG_CMP = {ast.Lt: ast.GtE, ast.GtE: ast.Lt, ast.Gt: ast.LtE, ast.LtE: ast.Gt, ast.Eq: ast.NotEq, ast.NotEq: ast.Eq, ast.Is: ast.IsNot, ast.IsNot: ast.Is, ast.In: ast.NotIn, ast.NotIn: ast.In}


def cond_holds(conds: List[Tuple[str, bool]], src: str) -> bool:
    """does the atomic condition `src` hold on a path whose conditions are `conds` (from path_conds)?  Purely syntactic: the condition itself is on the
    path with truth True, or its comparison-negation is on the path with truth False (`len(x) > 0` holds after `if len(x) <= 0: return`)."""
    t = ast.parse(src, mode="eval").body
    truth = True
    while isinstance(t, ast.UnaryOp) and isinstance(t.op, ast.Not):
        t, truth = t.operand, not truth
    forms = {(norm_text(t).replace('"', "'"), truth)}
    if isinstance(t, ast.Compare) and len(t.ops) == 1 and type(t.ops[0]) in _NEG_CMP:
        n = ast.Compare(left=t.left, ops=[_NEG_CMP[type(t.ops[0])]()], comparators=t.comparators)
        forms.add((norm_text(n).replace('"', "'"), not truth))
    return any(c in forms for c in conds)


def decision_paths(f: FuncInfo, limit: int = 256):
    """every path through a small decision function: (conditions that hold along it [(text, truth)], returned value) where names bound to constants along the path are
    replaced by those constants.  Handles if / assignments / return / try (the handler is the alternative path `except <types>`); loops are not followed (returns None)."""
    out = []

    def push(conds, t, truth):
        while isinstance(t, ast.UnaryOp) and isinstance(t.op, ast.Not):
            t, truth = t.operand, not truth
        if isinstance(t, ast.BoolOp) and ((isinstance(t.op, ast.And) and truth) or (isinstance(t.op, ast.Or) and not truth)):
            for v in t.values:
                conds = push(conds, v, truth)
            return conds
        return conds + [(norm_text(t).replace('"', "'"), truth)]

    def value(e, env):
        if isinstance(e, ast.Name) and e.id in env:
            return env[e.id]
        if isinstance(e, ast.Constant):
            return e.value
        return norm_text(e) if e is not None else None

    def run(stmts, conds, env, k):
        """k: continuation (list of statement lists to run after this block)"""
        if len(out) > limit:
            return
        if not stmts:
            if k:
                run(k[0], conds, env, k[1:])
            else:
                out.append((conds, None))
            return
        st, rest = stmts[0], stmts[1:]
        if isinstance(st, ast.Return):
            out.append((conds, value(st.value, env)))
        elif isinstance(st, ast.Raise):
            out.append((conds, "<raise>"))
        elif isinstance(st, ast.Assign) and len(st.targets) == 1 and isinstance(st.targets[0], ast.Name):
            e2 = dict(env)
            e2[st.targets[0].id] = value(st.value, env)
            run(rest, conds, e2, k)
        elif isinstance(st, ast.If):
            run(st.body, push(conds, st.test, True), env, [rest] + k)
            # a disjunction that fails / conjunction that holds splits; the complementary branch is kept as one (possibly compound) condition
            run(st.orelse, push(conds, st.test, False), env, [rest] + k)
        elif isinstance(st, ast.Try):
            run(st.body, conds, env, [rest] + k)
            for h in st.handlers:
                run(h.body, conds + [("except " + (norm_text(h.type) if h.type is not None else ""), True)], env, [rest] + k)
        elif isinstance(st, (ast.For, ast.While)):
            out.append((conds, "<loop>"))
        else:
            run(rest, conds, env, k)
    run(list(f.node.body), [], {}, [])
    return out


def main_line(f: FuncInfo) -> List[ast.stmt]:
    """the statements of f's body in order, looking through if-bodies (not loops): after canonicalisation the continuation of a guard clause may be the body of a positive `if`"""
    out: List[ast.stmt] = []

    def walk(stmts):
        for st in stmts:
            out.append(st)
            if isinstance(st, ast.If):
                walk(st.body)
                walk(st.orelse)
            elif isinstance(st, ast.Try):
                walk(st.body)
    walk(f.node.body)
    return out


def returns_of(f: FuncInfo) -> List[ast.Return]:
    return [n for n in f.body_nodes() if isinstance(n, ast.Return)]


def raises_of(f: FuncInfo) -> List[ast.Raise]:
    return [n for n in f.body_nodes() if isinstance(n, ast.Raise)]


def names_in(e: ast.AST) -> set:
    return {n.id for n in ast.walk(e) if isinstance(n, ast.Name)}


def attr_chain(e: ast.expr) -> Optional[str]:
    """'self.mask.origin' for a pure Name/Attribute chain, else None."""
    parts = []
    while isinstance(e, ast.Attribute):
        parts.append(e.attr)
        e = e.value
    if isinstance(e, ast.Name):
        parts.append(e.id)
        return ".".join(reversed(parts))
    return None


def loop_canon(f: FuncInfo, loop: ast.For, e: ast.expr) -> str:
    """normalised, name-free text of expression e inside `loop`, with the element the loop is at written SEQ[__k__] whichever way the loop is spelled:
    `for i in range(len(A)): .. A[i] .. B[i]`, `for i, a in enumerate(A): .. a .. B[i]`, `for a, b in zip(A, B): .. a .. b`, `for a in A`.
    Names bound as elements are replaced by SEQ[__k__] (components of a tuple target by SEQ[__k__][n]), subscripts by the index variable by [__k__]; single-assignment
    locals are inlined before and after."""
    import copy
    K = ast.Name(id="__k__", ctx=ast.Load())
    sub: Dict[str, ast.expr] = {}
    index_vars = set()

    def bind(t, v):
        if isinstance(t, ast.Name):
            sub[t.id] = v
        elif isinstance(t, (ast.Tuple, ast.List)):
            for n_, x in enumerate(t.elts):
                bind(x, ast.Subscript(value=copy.deepcopy(v), slice=ast.Constant(value=n_), ctx=ast.Load()))
    it, tg = loop.iter, loop.target

    def at(seq):
        return ast.Subscript(value=copy.deepcopy(seq), slice=copy.deepcopy(K), ctx=ast.Load())
    if isinstance(it, ast.Call) and isinstance(it.func, ast.Name) and it.func.id in ("range", "prange") and isinstance(tg, ast.Name):
        index_vars.add(tg.id)
    elif isinstance(it, ast.Call) and isinstance(it.func, ast.Name) and it.func.id == "enumerate" and isinstance(tg, ast.Tuple) and len(tg.elts) == 2 and it.args:
        if isinstance(tg.elts[0], ast.Name):
            index_vars.add(tg.elts[0].id)
        bind(tg.elts[1], at(it.args[0]))
    elif isinstance(it, ast.Call) and isinstance(it.func, ast.Name) and it.func.id == "zip" and isinstance(tg, ast.Tuple) and len(tg.elts) == len(it.args):
        for x, a in zip(tg.elts, it.args):
            bind(x, at(a))
    else:
        bind(tg, at(it))

    class T(ast.NodeTransformer):
        def visit_Name(s2, n):
            if isinstance(n.ctx, ast.Load) and n.id in sub:
                return copy.deepcopy(sub[n.id])
            if isinstance(n.ctx, ast.Load) and n.id in index_vars:
                return copy.deepcopy(K)
            return n
    e = inline_locals(f, e)
    e = T().visit(copy.deepcopy(e))
    # the sequences themselves may be single-assignment locals
    class L(ast.NodeTransformer):
        def visit_Name(s2, n):
            if isinstance(n.ctx, ast.Load) and n.id != "__k__":
                r = inline_locals(f, ast.copy_location(ast.Name(id=n.id, ctx=ast.Load()), loop))
                return r
            return n
    e = L().visit(e)
    return norm_text(e, limit=4000).replace(" ", "").replace('"', "'")
