"""E8 - small structural matchers over resolved calls and keyword bindings."""
from __future__ import annotations

import ast
from typing import Dict, List, Optional, Tuple, Iterable

from .model import Project, FuncInfo, ClassInfo, norm_text, unparse


def calls_to(p: Project, f: FuncInfo, callee_key: Optional[str] = None, name: Optional[str] = None) -> List[ast.Call]:
    """Calls inside f that resolve to the project function `callee_key` ('mod:qual'), or - when given - whose attribute / name is `name`."""
    out = []
    for c in f.calls():
        tg = p.resolve_call(c, f)
        if callee_key is not None and any(t.key == callee_key for t in tg):
            out.append(c)
        elif name is not None and not tg:
            fn = c.func
            nm = fn.attr if isinstance(fn, ast.Attribute) else (fn.id if isinstance(fn, ast.Name) else None)
            if nm == name:
                out.append(c)
        elif name is not None and any(t.name == name for t in tg):
            out.append(c)
    return sorted(out, key=lambda c: (c.lineno, c.col_offset))


def kw(call: ast.Call, callee: Optional[FuncInfo] = None) -> Dict[str, ast.expr]:
    if callee is not None:
        b, _ = Project.bind(call, callee)
        return b
    return {k.arg: k.value for k in call.keywords if k.arg}


def kwtext(call: ast.Call, callee: Optional[FuncInfo] = None) -> Dict[str, str]:
    return {k: norm_text(v) for k, v in kw(call, callee).items()}


def strip_np_array(e: ast.expr) -> ast.expr:
    """np.array(X) / np.asarray(X) / X.array -> X (value-preserving wrappers)."""
    while True:
        if isinstance(e, ast.Call) and isinstance(e.func, ast.Attribute) and isinstance(e.func.value, ast.Name) and e.func.value.id in ("np", "numpy") \
                and e.func.attr in ("array", "asarray") and len(e.args) == 1 and not e.keywords:
            e = e.args[0]
            continue
        if isinstance(e, ast.Attribute) and e.attr in ("array", "_array"):
            e = e.value
            continue
        return e


def enclosing_branches(f: FuncInfo, node: ast.AST) -> List[Tuple[ast.If, bool]]:
    """The chain of (If statement, in_body?) that encloses `node` inside f."""
    path: List[Tuple[ast.If, bool]] = []

    def walk(stmts, acc) -> bool:
        for st in stmts:
            if st is node or any(sub is node for sub in ast.walk(st)):
                if isinstance(st, ast.If):
                    if any(sub is node for b in st.body for sub in ast.walk(b)):
                        return walk(st.body, acc + [(st, True)])
                    if any(sub is node for b in st.orelse for sub in ast.walk(b)):
                        return walk(st.orelse, acc + [(st, False)])
                    path.extend(acc)
                    return True
                for fld in ("body", "orelse", "finalbody"):
                    sub = getattr(st, fld, None)
                    if isinstance(sub, list) and sub and isinstance(sub[0], ast.stmt):
                        if any(x is node for b in sub for x in ast.walk(b)):
                            return walk(sub, acc)
                if isinstance(st, ast.Try):
                    for h in st.handlers:
                        if any(x is node for b in h.body for x in ast.walk(b)):
                            return walk(h.body, acc)
                path.extend(acc)
                return True
        return False

    walk(f.node.body, [])
    return path


def resolve_local(f: FuncInfo, e: ast.expr, depth: int = 3) -> ast.expr:
    """a local name that is bound exactly once in f (and is not a parameter) stands for the expression it was bound to"""
    while depth > 0 and isinstance(e, ast.Name) and e.id not in f.all_params:
        asg = [n for n in f.body_nodes() if isinstance(n, (ast.Assign, ast.AugAssign, ast.AnnAssign, ast.For)) and any(isinstance(t, ast.Name) and t.id == e.id for t in _targets(n))]
        if len(asg) != 1 or not isinstance(asg[0], ast.Assign) or len(asg[0].targets) != 1 or not isinstance(asg[0].targets[0], ast.Name):
            break
        e = asg[0].value
        depth -= 1
    return e


def _targets(n):
    ts = n.targets if isinstance(n, ast.Assign) else [n.target]
    out = []
    for t in ts:
        out.extend(x for x in ast.walk(t) if isinstance(x, ast.Name))
    return out


def branch_conds(f: FuncInfo, node: ast.AST) -> List[Tuple[str, bool]]:
    """enclosing_branches as (normalised text of the condition, truth value it has on the way to `node`), with a leading `not` folded into the truth value"""
    out = []
    for i, taken in enclosing_branches(f, node):
        t = i.test
        while isinstance(t, ast.UnaryOp) and isinstance(t.op, ast.Not):
            t, taken = t.operand, not taken
        out.append((norm_text(t).replace('"', "'"), taken))
    return out


def _terminates(body) -> bool:
    if not body:
        return False
    last = body[-1]
    if isinstance(last, (ast.Return, ast.Raise, ast.Continue, ast.Break)):
        return True
    if isinstance(last, ast.If):
        return _terminates(last.body) and _terminates(last.orelse)
    return False


def path_conds(f: FuncInfo, node: ast.AST) -> List[Tuple[str, bool]]:
    """the conditions that hold on the way to `node`: the enclosing branches, plus, for every earlier `if C: ... return / raise` in an enclosing block, C being false
    (after canonicalisation an else that follows such a branch is written as the statements after the if).  A leading `not` is folded into the truth value."""
    out: List[Tuple[str, bool]] = []

    def fold(t, truth):
        while isinstance(t, ast.UnaryOp) and isinstance(t.op, ast.Not):
            t, truth = t.operand, not truth
        return (norm_text(t).replace('"', "'"), truth)

    def walk(stmts) -> bool:
        for k, st in enumerate(stmts):
            inside = st is node or any(sub is node for sub in ast.walk(st))
            if not inside:
                if isinstance(st, ast.If) and not st.orelse and _terminates(st.body):
                    out.append(fold(st.test, False))
                continue
            if isinstance(st, ast.If):
                if any(sub is node for sub in ast.walk(st.test)):
                    return True
                if any(sub is node for b in st.body for sub in ast.walk(b)):
                    out.append(fold(st.test, True))
                    return walk(st.body)
                out.append(fold(st.test, False))
                return walk(st.orelse)
            for fld in ("body", "orelse", "finalbody"):
                sub = getattr(st, fld, None)
                if isinstance(sub, list) and sub and isinstance(sub[0], ast.stmt) and any(x is node for b in sub for x in ast.walk(b)):
                    return walk(sub)
            if isinstance(st, ast.Try):
                for h in st.handlers:
                    if any(x is node for b in h.body for x in ast.walk(b)):
                        return walk(h.body)
            return True
        return False
    mark = len(out)
    walk(f.node.body)
    return out


def main_line(f: FuncInfo) -> List[ast.stmt]:
    """the statements of f's body in order, looking through if-bodies (not loops): after canonicalisation the continuation of a guard clause may be the body of a positive `if`"""
    out: List[ast.stmt] = []

    def walk(stmts):
        for st in stmts:
            out.append(st)
            if isinstance(st, ast.If):
                walk(st.body)
                walk(st.orelse)
            elif isinstance(st, ast.Try):
                walk(st.body)
    walk(f.node.body)
    return out


def returns_of(f: FuncInfo) -> List[ast.Return]:
    return [n for n in f.body_nodes() if isinstance(n, ast.Return)]


def raises_of(f: FuncInfo) -> List[ast.Raise]:
    return [n for n in f.body_nodes() if isinstance(n, ast.Raise)]


def names_in(e: ast.AST) -> set:
    return {n.id for n in ast.walk(e) if isinstance(n, ast.Name)}


def attr_chain(e: ast.expr) -> Optional[str]:
    """'self.mask.origin' for a pure Name/Attribute chain, else None."""
    parts = []
    while isinstance(e, ast.Attribute):
        parts.append(e.attr)
        e = e.value
    if isinstance(e, ast.Name):
        parts.append(e.id)
        return ".".join(reversed(parts))
    return None
