#!/venv/bin/python
"""metamorph.py [transform ...] [--pid Cxx ...] [--jobs N]

Robustness test of the CHECKER (maintenance tool, not a registered check): apply behaviour-preserving AST transformations to every analysed
module in memory and run every claimed check on the transformed project.  Any VIOLATION is a false alarm of a rule (it matched spelling, not
behaviour); an ANALYSIS-ERROR is a rule that can no longer see its shape.  Nothing under /repo is written or executed.

transforms:
  flipcmp    a < b  ->  b > a   (single-operator comparisons)
  commute    a + b -> b + a,  a * b -> b * a   (not for string / list operands, not for matrix products)
  retvar     return E  ->  _ret = E; return _ret
  kworder    keyword arguments of every call in reverse order
  ifinvert   if c: A else: B  ->  if not c: B else: A   (plain if/else only)
  combo      the six above applied together
  swapadj    adjacent independent call-free assignments swapped
  dropelse   else after a branch that always returns / raises removed (its body follows the if)
  extractvar keyword arguments that are calls / arithmetic computed into a temporary right before the statement
  kw2pos     keyword arguments written positionally wherever the callee is a uniquely resolved project function
  aug2assign counters written x = x + 1 instead of x += 1
  addelse    the inverse: statements after such an if moved into an else
  cmpneg     if a == b: A else: B -> if a != b: B else: A  (also is / is not, in / not in)
  guardnest  if a and b: S -> if a: if b: S
  toifexp    if c: x = p else: x = q -> x = p if c else q
  npkw       np.zeros(s) -> np.zeros(shape=s), np.full(s, v) -> np.full(fill_value=v, shape=s)
  comp2loop  X = [E for T in IT] -> X = []; for T in IT: X.append(E)
  aliasself  the most-read attribute self.<a> of a method read once into a local at the top of the method
  renamenon5 rename + a `pass` in every function (the reference names cannot be restored: rules must be name-free on their own)
  addlog     a logger.debug(...) statement at the top of every non-jit function (module logger added)
  stripdoc   docstrings removed
  reorderdefs runs of top-level functions / methods of a class written in the reverse order
  extracthelper the expression of the last `return E` of each function / method moved into a new module-level helper
  inlinetemp single-use temporaries substituted into the statement that follows them
  rename     every purely local variable v of a function renamed v_r  (parameters, globals, closure variables untouched)
"""
import ast, sys, os, json, copy, multiprocessing as mp
sys.path.insert(0, "/verif")
from sa.model import Project, REPO  # noqa


class FlipCmp(ast.NodeTransformer):
    MAP = {ast.Lt: ast.Gt, ast.Gt: ast.Lt, ast.LtE: ast.GtE, ast.GtE: ast.LtE}

    def visit_Compare(self, n):
        self.generic_visit(n)
        if len(n.ops) == 1 and type(n.ops[0]) in self.MAP:
            return ast.Compare(left=n.comparators[0], ops=[self.MAP[type(n.ops[0])]()], comparators=[n.left])
        return n


def _stringy(e):
    return isinstance(e, (ast.JoinedStr, ast.List, ast.Tuple, ast.ListComp)) or (isinstance(e, ast.Constant) and isinstance(e.value, (str, bytes))) or \
        (isinstance(e, ast.Call) and isinstance(e.func, ast.Name) and e.func.id in ("str", "list", "tuple", "repr")) or \
        (isinstance(e, ast.Call) and isinstance(e.func, ast.Attribute) and e.func.attr in ("format", "join")) or \
        (isinstance(e, ast.BinOp) and isinstance(e.op, (ast.Add, ast.Mod)) and (_stringy(e.left) or _stringy(e.right)))


class Commute(ast.NodeTransformer):
    def visit_BinOp(self, n):
        self.generic_visit(n)
        if isinstance(n.op, (ast.Add, ast.Mult)) and not _stringy(n.left) and not _stringy(n.right):
            return ast.BinOp(left=n.right, op=n.op, right=n.left)
        return n


class RetVar(ast.NodeTransformer):
    def _block(self, body):
        out = []
        for st in body:
            st = self.visit(st)
            if isinstance(st, ast.Return) and st.value is not None and not isinstance(st.value, (ast.Name, ast.Constant)):
                out.append(ast.Assign(targets=[ast.Name(id="_ret", ctx=ast.Store())], value=st.value, lineno=st.lineno))
                out.append(ast.Return(value=ast.Name(id="_ret", ctx=ast.Load())))
            else:
                out.append(st)
        return out

    def generic_visit(self, node):
        for fld in ("body", "orelse", "finalbody"):
            blk = getattr(node, fld, None)
            if isinstance(blk, list) and blk and isinstance(blk[0], ast.stmt):
                setattr(node, fld, self._block(blk))
        if isinstance(node, ast.Try):
            for h in node.handlers:
                h.body = self._block(h.body)
        return node

    def visit(self, node):
        if isinstance(node, ast.Lambda):
            return node
        return self.generic_visit(node)


class KwOrder(ast.NodeTransformer):
    def visit_Call(self, n):
        self.generic_visit(n)
        if len(n.keywords) > 1 and all(k.arg is not None for k in n.keywords):
            n.keywords = list(reversed(n.keywords))
        return n


class IfInvert(ast.NodeTransformer):
    def visit_If(self, n):
        self.generic_visit(n)
        if n.orelse and not (len(n.orelse) == 1 and isinstance(n.orelse[0], ast.If)):
            t = n.test
            nt = t.operand if (isinstance(t, ast.UnaryOp) and isinstance(t.op, ast.Not)) else ast.UnaryOp(op=ast.Not(), operand=t)
            return ast.If(test=nt, body=n.orelse, orelse=n.body)
        return n


class Rename(ast.NodeTransformer):
    """rename purely local variables of each function (not parameters, not names declared global/nonlocal, not names read by nested functions, not names the function only reads)"""

    def visit_FunctionDef(self, f):
        # nested functions first
        for i, st in enumerate(f.body):
            f.body[i] = self.visit(st) if isinstance(st, (ast.FunctionDef, ast.ClassDef)) else st
        params = {a.arg for a in f.args.posonlyargs + f.args.args + f.args.kwonlyargs}
        if f.args.vararg:
            params.add(f.args.vararg.arg)
        if f.args.kwarg:
            params.add(f.args.kwarg.arg)
        stored, banned = set(), set(params)

        def scan(node, top):
            for ch in ast.iter_child_nodes(node):
                if isinstance(ch, (ast.FunctionDef, ast.AsyncFunctionDef, ast.Lambda, ast.ClassDef)):
                    for nm in ast.walk(ch):
                        if isinstance(nm, ast.Name):
                            banned.add(nm.id)
                    continue
                if isinstance(ch, (ast.Global, ast.Nonlocal)):
                    banned.update(ch.names)
                if isinstance(ch, ast.Name) and isinstance(ch.ctx, (ast.Store, ast.Del)):
                    stored.add(ch.id)
                if isinstance(ch, (ast.ListComp, ast.SetComp, ast.DictComp, ast.GeneratorExp)):
                    for g in ch.generators:
                        for nm in ast.walk(g.target):
                            if isinstance(nm, ast.Name):
                                banned.add(nm.id)
                if isinstance(ch, ast.ExceptHandler) and ch.name:
                    banned.add(ch.name)
                if isinstance(ch, (ast.Import, ast.ImportFrom)):
                    for a in ch.names:
                        banned.add((a.asname or a.name).split(".")[0])
                scan(ch, False)
        scan(f, True)
        ren = {v: v + "_r" for v in stored - banned if not v.startswith("__")}

        class R(ast.NodeTransformer):
            def visit_FunctionDef(s, n):
                return n

            visit_AsyncFunctionDef = visit_Lambda = visit_ClassDef = visit_FunctionDef

            def visit_Name(s, n):
                if n.id in ren:
                    return ast.Name(id=ren[n.id], ctx=n.ctx)
                return n
        for i, st in enumerate(f.body):
            if not isinstance(st, (ast.FunctionDef, ast.ClassDef)):
                f.body[i] = R().visit(st)
        return f

    def visit_ClassDef(self, c):
        for i, st in enumerate(c.body):
            c.body[i] = self.visit(st)
        return c


def _names_of(n, ctx=None):
    return {x.id for x in ast.walk(n) if isinstance(x, ast.Name) and (ctx is None or isinstance(x.ctx, ctx))}


def _has_call(n):
    return any(isinstance(x, ast.Call) for x in ast.walk(n))


class SwapAdj(ast.NodeTransformer):
    """swap adjacent simple assignments `a = E1; b = E2` that do not depend on each other and contain no calls (so evaluation order is unobservable)"""

    def _block(self, body):
        out = list(body)
        i = 0
        while i + 1 < len(out):
            a, b = out[i], out[i + 1]
            if (isinstance(a, ast.Assign) and isinstance(b, ast.Assign) and all(isinstance(t, ast.Name) for t in a.targets + b.targets)
                    and not _has_call(a) and not _has_call(b)):
                ta, tb = _names_of(a, ast.Store), _names_of(b, ast.Store)
                if not (ta & _names_of(b)) and not (tb & _names_of(a)):
                    out[i], out[i + 1] = b, a
                    i += 2
                    continue
            i += 1
        return out

    def generic_visit(self, node):
        super().generic_visit(node)
        for fld in ("body", "orelse", "finalbody"):
            blk = getattr(node, fld, None)
            if isinstance(blk, list) and blk and isinstance(blk[0], ast.stmt):
                setattr(node, fld, self._block(blk))
        return node


def _terminates(body):
    if not body:
        return False
    last = body[-1]
    if isinstance(last, (ast.Return, ast.Raise, ast.Continue, ast.Break)):
        return True
    if isinstance(last, ast.If):
        return _terminates(last.body) and _terminates(last.orelse)
    return False


class DropElse(ast.NodeTransformer):
    """if c: ...return/raise  else: B   ->   if c: ...return/raise ; B"""

    def _block(self, body):
        out = []
        for st in body:
            if isinstance(st, ast.If) and st.orelse and _terminates(st.body):
                rest = st.orelse
                st.orelse = []
                out.append(st)
                out.extend(rest)
            else:
                out.append(st)
        return out

    def generic_visit(self, node):
        super().generic_visit(node)
        for fld in ("body", "orelse", "finalbody"):
            blk = getattr(node, fld, None)
            if isinstance(blk, list) and blk and isinstance(blk[0], ast.stmt):
                setattr(node, fld, self._block(blk))
        return node


class AddElse(ast.NodeTransformer):
    """if c: ...return/raise ; B   ->   if c: ...return/raise  else: B   (the rest of the block moves into the else)"""

    def _block(self, body):
        for i, st in enumerate(body):
            if isinstance(st, ast.If) and not st.orelse and _terminates(st.body) and i + 1 < len(body):
                st.orelse = self._block(body[i + 1:])
                return body[:i + 1]
        return body

    def generic_visit(self, node):
        super().generic_visit(node)
        for fld in ("body", "orelse", "finalbody"):
            blk = getattr(node, fld, None)
            if isinstance(blk, list) and blk and isinstance(blk[0], ast.stmt):
                setattr(node, fld, self._block(blk))
        return node


class ExtractVar(ast.NodeTransformer):
    """keyword arguments that are calls / arithmetic are computed into a temporary right before the statement:  f(a=g(x))  ->  _t0 = g(x); f(a=_t0)
    (only for assignments / returns / expression statements whose value is that call, so evaluation order is preserved)"""

    def __init__(self):
        self.k = 0

    def _block(self, body):
        out = []
        for st in body:
            call = None
            if isinstance(st, (ast.Assign, ast.Return, ast.Expr)) and isinstance(getattr(st, "value", None), ast.Call):
                call = st.value
            if call is not None and call.keywords and all(k.arg is not None for k in call.keywords) and not any(isinstance(a, ast.Starred) for a in call.args):
                for kw in call.keywords:
                    if isinstance(kw.value, (ast.Call, ast.BinOp, ast.Subscript)) and not any(isinstance(x, (ast.Lambda, ast.NamedExpr, ast.Yield, ast.Await)) for x in ast.walk(kw.value)):
                        nm = f"_t{self.k}"
                        self.k += 1
                        out.append(ast.Assign(targets=[ast.Name(id=nm, ctx=ast.Store())], value=kw.value, lineno=st.lineno))
                        kw.value = ast.Name(id=nm, ctx=ast.Load())
            out.append(st)
        return out

    def generic_visit(self, node):
        super().generic_visit(node)
        for fld in ("body", "orelse", "finalbody"):
            blk = getattr(node, fld, None)
            if isinstance(blk, list) and blk and isinstance(blk[0], ast.stmt):
                setattr(node, fld, self._block(blk))
        if isinstance(node, ast.Try):
            for h in node.handlers:
                h.body = self._block(h.body)
        return node

    def visit_FunctionDef(self, node):
        self.k = 0
        return self.generic_visit(node)


class Aug2Assign(ast.NodeTransformer):
    """x += c  ->  x = x + c   for plain names and numeric constants (counters; for scalars the two are the same statement)"""

    def visit_AugAssign(self, n):
        if isinstance(n.target, ast.Name) and isinstance(n.value, ast.Constant) and isinstance(n.value.value, (int, float)) and not isinstance(n.value.value, bool) and isinstance(n.op, (ast.Add, ast.Sub)):
            return ast.copy_location(ast.Assign(targets=[ast.Name(id=n.target.id, ctx=ast.Store())], value=ast.BinOp(left=ast.Name(id=n.target.id, ctx=ast.Load()), op=n.op, right=n.value)), n)
        return n


class Combo(ast.NodeTransformer):
    """all of the above, one after the other"""

    def visit(self, tree):
        for T in (Rename, FlipCmp, Commute, KwOrder, IfInvert, RetVar):
            tree = T().visit(tree)
            ast.fix_missing_locations(tree)
        return tree


def _terminates(body):
    if not body:
        return False
    last = body[-1]
    if isinstance(last, (ast.Return, ast.Raise, ast.Continue, ast.Break)):
        return True
    if isinstance(last, ast.If):
        return _terminates(last.body) and _terminates(last.orelse)
    return False


class CmpNeg(ast.NodeTransformer):
    """if a == b: A else: B  ->  if a != b: B else: A   (and is / is not, in / not in)"""
    MAP = {ast.Eq: ast.NotEq, ast.NotEq: ast.Eq, ast.Is: ast.IsNot, ast.IsNot: ast.Is, ast.In: ast.NotIn, ast.NotIn: ast.In}

    def visit_If(self, n):
        self.generic_visit(n)
        t = n.test
        if n.orelse and not (len(n.orelse) == 1 and isinstance(n.orelse[0], ast.If)) and isinstance(t, ast.Compare) and len(t.ops) == 1 and type(t.ops[0]) in self.MAP:
            n.test = ast.Compare(left=t.left, ops=[self.MAP[type(t.ops[0])]()], comparators=t.comparators)
            n.body, n.orelse = n.orelse, n.body
        return n


class GuardNest(ast.NodeTransformer):
    """if a and b: S  (no else)  ->  if a: if b: S"""
    def visit_If(self, n):
        self.generic_visit(n)
        if not n.orelse and isinstance(n.test, ast.BoolOp) and isinstance(n.test.op, ast.And) and len(n.test.values) == 2:
            a, b = n.test.values
            return ast.If(test=a, body=[ast.If(test=b, body=n.body, orelse=[])], orelse=[])
        return n


class ToIfExp(ast.NodeTransformer):
    """if c: x = p else: x = q  ->  x = p if c else q"""
    def visit_If(self, n):
        self.generic_visit(n)
        if len(n.body) == 1 and len(n.orelse) == 1 and all(isinstance(s, ast.Assign) and len(s.targets) == 1 and isinstance(s.targets[0], ast.Name) for s in (n.body[0], n.orelse[0])) \
                and n.body[0].targets[0].id == n.orelse[0].targets[0].id:
            return ast.Assign(targets=[ast.Name(id=n.body[0].targets[0].id, ctx=ast.Store())], value=ast.IfExp(test=n.test, body=n.body[0].value, orelse=n.orelse[0].value), lineno=n.lineno)
        return n


class NpKw(ast.NodeTransformer):
    """np.zeros(s) -> np.zeros(shape=s);  np.full(s, v) -> np.full(shape=s, fill_value=v);  np.zeros(shape=s) -> np.zeros(s) is the canonical direction, so only the keyword spelling is produced here"""
    def visit_Call(self, n):
        self.generic_visit(n)
        f = n.func
        if isinstance(f, ast.Attribute) and isinstance(f.value, ast.Name) and f.value.id in ("np", "numpy") and f.attr in ("zeros", "ones", "full", "empty") and n.args and not any(isinstance(a, ast.Starred) for a in n.args):
            names = ["shape", "fill_value"] if f.attr == "full" else ["shape"]
            k = min(len(names), len(n.args))
            n.keywords = [ast.keyword(arg=names[i], value=n.args[i]) for i in range(k)][::-1] + n.keywords if len(n.args) <= len(names) else n.keywords
            if len(n.args) <= len(names):
                n.args = []
        return n


class Comp2Loop(ast.NodeTransformer):
    """X = [E for T in IT (if C)]  ->  X = []; for T in IT: (if C:) X.append(E)      (T not used anywhere else in the function)"""
    def visit_FunctionDef(self, f):
        self.generic_visit(f)
        names = {}
        for m in ast.walk(f):
            if isinstance(m, ast.Name):
                names[m.id] = names.get(m.id, 0) + 1

        def block(stmts):
            out = []
            for st in stmts:
                for fld in ("body", "orelse", "finalbody"):
                    b = getattr(st, fld, None)
                    if isinstance(b, list) and b and isinstance(b[0], ast.stmt) and not isinstance(st, (ast.FunctionDef, ast.ClassDef)):
                        setattr(st, fld, block(b))
                if isinstance(st, ast.Assign) and len(st.targets) == 1 and isinstance(st.targets[0], ast.Name) and isinstance(st.value, ast.ListComp) and len(st.value.generators) == 1:
                    g = st.value.generators[0]
                    x = st.targets[0].id
                    tn = [m.id for m in ast.walk(g.target) if isinstance(m, ast.Name)]
                    inside = {}
                    for m in ast.walk(st.value):
                        if isinstance(m, ast.Name):
                            inside[m.id] = inside.get(m.id, 0) + 1
                    if len(g.ifs) <= 1 and not g.is_async and all(names.get(t, 0) == inside.get(t, 0) for t in tn) and x not in inside \
                            and not any(isinstance(m, (ast.ListComp, ast.GeneratorExp, ast.SetComp, ast.DictComp, ast.Lambda)) for m in ast.walk(st.value) if m is not st.value):
                        app = ast.Expr(value=ast.Call(func=ast.Attribute(value=ast.Name(id=x, ctx=ast.Load()), attr="append", ctx=ast.Load()), args=[st.value.elt], keywords=[]))
                        body = [ast.If(test=g.ifs[0], body=[app], orelse=[])] if g.ifs else [app]
                        out.append(ast.Assign(targets=[ast.Name(id=x, ctx=ast.Store())], value=ast.List(elts=[], ctx=ast.Load()), lineno=st.lineno))
                        out.append(ast.For(target=g.target, iter=g.iter, body=body, orelse=[], lineno=st.lineno))
                        continue
                out.append(st)
            return out
        f.body = block(f.body)
        return f


class AliasSelf(ast.NodeTransformer):
    """the attribute chain self.<a> that a method reads most often (>= 2 reads, never assigned in the method, not read inside nested functions) is read once into a local at the top"""
    def visit_FunctionDef(self, f):
        self.generic_visit(f)
        if not f.args.args or f.args.args[0].arg != "self" or any(isinstance(n, (ast.Global, ast.Nonlocal)) for n in ast.walk(f)):
            return f
        nested = {id(m) for n in ast.walk(f) if n is not f and isinstance(n, (ast.FunctionDef, ast.Lambda, ast.ListComp, ast.GeneratorExp, ast.SetComp, ast.DictComp)) for m in ast.walk(n)}
        reads, stored = {}, set()
        for n in ast.walk(f):
            if isinstance(n, ast.Attribute) and isinstance(n.value, ast.Name) and n.value.id == "self":
                if isinstance(n.ctx, ast.Load) and id(n) not in nested:
                    reads.setdefault(n.attr, []).append(n)
                elif not isinstance(n.ctx, ast.Load):
                    stored.add(n.attr)
            if isinstance(n, ast.Name) and n.id == "self" and isinstance(n.ctx, ast.Store):
                return f
        # attributes that are called (methods) or are stored stay as they are
        called = {n.func.attr for n in ast.walk(f) if isinstance(n, ast.Call) and isinstance(n.func, ast.Attribute) and isinstance(n.func.value, ast.Name) and n.func.value.id == "self"}
        nested_attrs = {n.attr for n in ast.walk(f) if isinstance(n, ast.Attribute) and id(n) in nested and isinstance(n.value, ast.Name) and n.value.id == "self"}
        cand = sorted(((len(v), k) for k, v in reads.items() if len(v) >= 2 and k not in stored and k not in called and k not in nested_attrs and not k.startswith("__")), reverse=True)
        if not cand:
            return f
        attr = cand[0][1]
        local = f"{attr}_a"
        if any(isinstance(n, ast.Name) and n.id == local for n in ast.walk(f)):
            return f
        ids = {id(n) for n in reads[attr]}

        class R(ast.NodeTransformer):
            def visit_Attribute(s2, n):
                if id(n) in ids:
                    return ast.Name(id=local, ctx=ast.Load())
                return s2.generic_visit(n)
        f = R().visit(f)
        k = 1 if (f.body and isinstance(f.body[0], ast.Expr) and isinstance(f.body[0].value, ast.Constant) and isinstance(f.body[0].value.value, str)) else 0
        f.body.insert(k, ast.Assign(targets=[ast.Name(id=local, ctx=ast.Store())], value=ast.Attribute(value=ast.Name(id="self", ctx=ast.Load()), attr=attr, ctx=ast.Load()), lineno=f.lineno))
        return f


class RenameNoN5(ast.NodeTransformer):
    """rename every purely local variable AND add a `pass` to every function, so that the function no longer matches its reference digest and N5 cannot give the
    reference names back: the rules themselves must not depend on what locals are called"""
    def visit_Module(self, n):
        n = Rename().visit(n)
        for f in ast.walk(n):
            if isinstance(f, (ast.FunctionDef, ast.AsyncFunctionDef)):
                k = 1 if (f.body and isinstance(f.body[0], ast.Expr) and isinstance(f.body[0].value, ast.Constant) and isinstance(f.body[0].value.value, str)) else 0
                f.body.insert(k, ast.Pass())
        return n



def _doc_k(f):
    return 1 if (f.body and isinstance(f.body[0], ast.Expr) and isinstance(f.body[0].value, ast.Constant) and isinstance(f.body[0].value.value, str)) else 0


def _is_jit(f):
    return any("jit" in ast.unparse(d) for d in f.decorator_list)


class AddLog(ast.NodeTransformer):
    """a logger.debug(...) line at the top of every (non-jit) function; the module gets `import logging` and a module logger"""
    def visit_Module(self, n):
        hit = False
        for f in ast.walk(n):
            if isinstance(f, ast.FunctionDef) and not _is_jit(f):
                f.body.insert(_doc_k(f), ast.Expr(value=ast.Call(func=ast.Attribute(value=ast.Name(id="_mm_logger", ctx=ast.Load()), attr="debug", ctx=ast.Load()),
                                                                 args=[ast.Constant(value="enter " + f.name)], keywords=[])))
                hit = True
        if hit:
            k = _doc_k(n)
            while k < len(n.body) and isinstance(n.body[k], ast.ImportFrom) and n.body[k].module == "__future__":
                k += 1
            n.body[k:k] = ast.parse("import logging as _mm_logging\n_mm_logger = _mm_logging.getLogger(__name__)\n").body
        return n


class StripDoc(ast.NodeTransformer):
    """docstrings removed (a `pass` is left when the body would be empty)"""
    def visit_Module(self, n):
        for f in ast.walk(n):
            if isinstance(f, (ast.FunctionDef, ast.ClassDef)) and _doc_k(f):
                f.body = f.body[1:] or [ast.Pass()]
        return n


class ReorderDefs(ast.NodeTransformer):
    """maximal runs of top-level function definitions reversed; methods of a class reversed when no method name is defined twice (property setters) and no
    decorator / default / class-level statement refers to another member"""
    def _rev_runs(self, body, ok):
        out, run = [], []
        for st in body + [None]:
            if st is not None and isinstance(st, ast.FunctionDef) and ok(st):
                run.append(st)
            else:
                out.extend(reversed(run)); run = []
                if st is not None:
                    out.append(st)
        return out

    def visit_Module(self, n):
        top = {s.name for s in n.body if isinstance(s, (ast.FunctionDef, ast.ClassDef))}

        def ok_top(f):
            outer = [d for d in f.decorator_list] + f.args.defaults + [d for d in f.args.kw_defaults if d is not None]
            return not any(isinstance(x, ast.Name) and x.id in top for d in outer for x in ast.walk(d))
        n.body = self._rev_runs(n.body, ok_top)
        for c in n.body:
            if isinstance(c, ast.ClassDef):
                names = [s.name for s in c.body if isinstance(s, ast.FunctionDef)]
                if len(names) != len(set(names)):
                    continue
                members = set(names) | {t.id for s in c.body if isinstance(s, ast.Assign) for t in s.targets if isinstance(t, ast.Name)}

                def ok_m(f, members=members):
                    outer = [d for d in f.decorator_list] + f.args.defaults + [d for d in f.args.kw_defaults if d is not None]
                    return not any(isinstance(x, ast.Name) and x.id in members for d in outer for x in ast.walk(d))
                c.body = self._rev_runs(c.body, ok_m)
        return n


class ExtractHelper(ast.NodeTransformer):
    """the expression of the last `return E` of every top-level function / method moved into a new module-level helper that receives the locals it reads"""
    def visit_Module(self, n):
        helpers = []
        cnt = [0]

        def locals_of(f):
            names = {a.arg for a in f.args.posonlyargs + f.args.args + f.args.kwonlyargs}
            if f.args.vararg:
                names.add(f.args.vararg.arg)
            if f.args.kwarg:
                names.add(f.args.kwarg.arg)
            for x in ast.walk(f):
                if isinstance(x, ast.Name) and isinstance(x.ctx, ast.Store):
                    names.add(x.id)
                elif isinstance(x, (ast.FunctionDef, ast.ClassDef)) and x is not f:
                    names.add(x.name)
                elif isinstance(x, ast.ExceptHandler) and x.name:
                    names.add(x.name)
                elif isinstance(x, (ast.Import, ast.ImportFrom)):
                    for a in x.names:
                        names.add((a.asname or a.name).split(".")[0])
            return names

        def handle(f):
            if any(isinstance(x, (ast.Yield, ast.YieldFrom, ast.Await, ast.Global, ast.Nonlocal)) for x in ast.walk(f)):
                return
            rets = [x for x in ast.walk(f) if isinstance(x, ast.Return) and x.value is not None]
            # only returns that belong to f itself
            inner = {id(r) for g in ast.walk(f) if isinstance(g, (ast.FunctionDef, ast.Lambda)) and g is not f for r in ast.walk(g) if isinstance(r, ast.Return)}
            rets = [r for r in rets if id(r) not in inner]
            if not rets:
                return
            r = rets[-1]
            e = r.value
            if isinstance(e, (ast.Name, ast.Constant)):
                return
            for x in ast.walk(e):
                if isinstance(x, (ast.Lambda, ast.NamedExpr, ast.Starred)):
                    return
                if isinstance(x, ast.Name) and x.id in ("super", "__class__", "locals", "vars"):
                    return
                if isinstance(x, ast.Attribute) and x.attr.startswith("__") and not x.attr.endswith("__"):
                    return
            loc = locals_of(f)
            comp_bound = {nm.id for x in ast.walk(e) if isinstance(x, (ast.ListComp, ast.SetComp, ast.DictComp, ast.GeneratorExp)) for g in x.generators for nm in ast.walk(g.target) if isinstance(nm, ast.Name)}
            used = []
            for x in ast.walk(e):
                if isinstance(x, ast.Name) and isinstance(x.ctx, ast.Load) and x.id in loc and x.id not in comp_bound and x.id not in used:
                    used.append(x.id)
            cnt[0] += 1
            hname = f"_mm_{f.name.strip('_')}_ret{cnt[0]}"
            helpers.append(ast.FunctionDef(name=hname, args=ast.arguments(posonlyargs=[], args=[ast.arg(arg=u) for u in used], kwonlyargs=[], kw_defaults=[], defaults=[]),
                                           body=[ast.Return(value=e)], decorator_list=[], lineno=f.lineno))
            r.value = ast.Call(func=ast.Name(id=hname, ctx=ast.Load()), args=[ast.Name(id=u, ctx=ast.Load()) for u in used], keywords=[])

        for st in n.body:
            if isinstance(st, ast.FunctionDef):
                handle(st)
            elif isinstance(st, ast.ClassDef):
                for m in st.body:
                    if isinstance(m, ast.FunctionDef):
                        handle(m)
        n.body.extend(helpers)
        return n


class InlineTemp(ast.NodeTransformer):
    """t = E directly followed by the only statement that reads t (exactly once, t never read elsewhere in the function) -> E written in place"""
    def visit_FunctionDef(self, f):
        self.generic_visit(f)
        loads, stores = {}, {}
        for x in ast.walk(f):
            if isinstance(x, ast.Name):
                d = loads if isinstance(x.ctx, ast.Load) else stores
                d[x.id] = d.get(x.id, 0) + 1
        params = {a.arg for a in f.args.posonlyargs + f.args.args + f.args.kwonlyargs}

        def block(body):
            out = []
            i = 0
            while i < len(body):
                st = body[i]
                nxt = body[i + 1] if i + 1 < len(body) else None
                if (isinstance(st, ast.Assign) and len(st.targets) == 1 and isinstance(st.targets[0], ast.Name) and nxt is not None
                        and isinstance(nxt, (ast.Assign, ast.Return, ast.Expr, ast.AugAssign)) and not isinstance(st.value, (ast.Constant, ast.Name))):
                    t = st.targets[0].id
                    uses = [x for x in ast.walk(nxt) if isinstance(x, ast.Name) and x.id == t and isinstance(x.ctx, ast.Load)]
                    in_scope = any(isinstance(s, (ast.Lambda, ast.ListComp, ast.SetComp, ast.DictComp, ast.GeneratorExp)) and any(u in list(ast.walk(s)) for u in uses) for s in ast.walk(nxt))
                    if (len(uses) == 1 and loads.get(t, 0) == 1 and stores.get(t, 0) == 1 and t not in params and not in_scope
                            and not any(isinstance(x, (ast.Yield, ast.Await, ast.NamedExpr)) for x in ast.walk(st.value))):
                        class S(ast.NodeTransformer):
                            def visit_Name(s, n):
                                return st.value if (n.id == t and isinstance(n.ctx, ast.Load)) else n
                        out.append(S().visit(nxt))
                        i += 2
                        continue
                for fld in ("body", "orelse", "finalbody"):
                    blk = getattr(st, fld, None)
                    if isinstance(blk, list) and blk and isinstance(blk[0], ast.stmt) and not isinstance(st, (ast.FunctionDef, ast.ClassDef)):
                        setattr(st, fld, block(blk))
                if isinstance(st, ast.Try):
                    for h in st.handlers:
                        h.body = block(h.body)
                out.append(st)
                i += 1
            return out
        f.body = block(f.body)
        return f


TRANSFORMS = {"addlog": AddLog, "stripdoc": StripDoc, "reorderdefs": ReorderDefs, "extracthelper": ExtractHelper, "inlinetemp": InlineTemp, "renamenon5": RenameNoN5, "cmpneg": CmpNeg, "guardnest": GuardNest, "toifexp": ToIfExp, "npkw": NpKw, "comp2loop": Comp2Loop, "aliasself": AliasSelf, "flipcmp": FlipCmp, "commute": Commute, "retvar": RetVar, "kworder": KwOrder, "ifinvert": IfInvert, "rename": Rename, "combo": Combo, "swapadj": SwapAdj, "dropelse": DropElse, "addelse": AddElse, "extractvar": ExtractVar, "kw2pos": None, "aug2assign": Aug2Assign}


def _kw2pos_sources():
    """keyword arguments turned into positional ones wherever the callee resolves to exactly one project function and the keywords form a prefix of its remaining parameters"""
    p = Project()
    n = 0
    for f in p.all_functions():
        for c in f.calls():
            tg = p.resolve_call(c, f)
            if len(tg) != 1 or not c.keywords or any(k.arg is None for k in c.keywords) or any(isinstance(a, ast.Starred) for a in c.args):
                continue
            t = tg[0]
            params = list(t.call_params)
            if t.vararg or len(c.args) > len(params):
                continue
            rest = params[len(c.args):]
            kws = {k.arg: k for k in c.keywords}
            moved = []
            for name in rest:
                if name in kws and name not in t.kwonly:
                    moved.append(kws[name])
                else:
                    break
            if not moved:
                continue
            c.args = list(c.args) + [k.value for k in moved]
            c.keywords = [k for k in c.keywords if k not in moved]
            n += 1
    out = {}
    for m in p.modules.values():
        if m.relpath.startswith("autoarray/plot") or "/util/nn/" in m.relpath:
            continue
        ast.fix_missing_locations(m.tree)
        out[m.relpath] = ast.unparse(m.tree)
    return out


def transformed_sources(tname):
    if tname == "kw2pos":
        return _kw2pos_sources()
    out = {}
    for root, _, files in os.walk(os.path.join(REPO, "autoarray")):
        for fn in files:
            if not fn.endswith(".py"):
                continue
            path = os.path.join(root, fn)
            rel = os.path.relpath(path, REPO)
            if rel.startswith("autoarray/plot") or "/util/nn/" in rel:
                continue
            src = open(path, newline="").read().replace("\r\n", "\n")
            try:
                tree = ast.parse(src)
            except SyntaxError:
                continue
            tree = TRANSFORMS[tname]().visit(tree)
            ast.fix_missing_locations(tree)
            new = ast.unparse(tree)
            compile(new, rel, "exec")
            out[rel] = new
    return out


def run_one(args):
    tname, pid = args
    import io, contextlib
    from sa.main import run_rules
    try:
        p = Project(overrides=transformed_sources(tname))
        with contextlib.redirect_stdout(io.StringIO()):
            ctx = run_rules(pid, "quick", p)
        from sa.report import load_known
        known = {k["key"] for k in load_known().get("known", [])}
        viol = [f.text()[:300] for f in ctx.findings if f.key not in known]
        return (tname, pid, viol, [e[:300] for e in ctx.analysis_errors])
    except Exception as e:  # noqa
        import traceback
        return (tname, pid, [], ["EXC " + repr(e)[:200] + " " + traceback.format_exc()[-400:]])


if __name__ == "__main__":
    argv = sys.argv[1:]
    pids, ts, jobs = [], [], 16
    i = 0
    while i < len(argv):
        if argv[i] == "--pid":
            pids.append(argv[i + 1]); i += 2
        elif argv[i] == "--jobs":
            jobs = int(argv[i + 1]); i += 2
        else:
            ts.append(argv[i]); i += 1
    ts = ts or list(TRANSFORMS)
    man = json.load(open("/verif/MANIFEST.json"))
    pids = pids or [c["property_id"] for c in man["checks"]]
    # baseline: identity through unparse (formatting / comments lost only)
    TRANSFORMS["identity"] = ast.NodeTransformer
    work = [(t, p) for t in ["identity"] + ts for p in pids]
    with mp.Pool(jobs) as pool:
        res = pool.map(run_one, work)
    bad = 0
    for t, p, viol, errs in res:
        if viol or errs:
            bad += 1
            print(f"== {t} {p}: {len(viol)} violation(s), {len(errs)} analysis error(s)")
            for v in viol[:40]:
                print("   V", v)
            for e in errs[:40]:
                print("   E", e)
    print(f"{len(res)} (transform, property) pairs, {bad} not silent")
