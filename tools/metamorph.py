#!/venv/bin/python
"""metamorph.py [transform ...] [--pid Cxx ...] [--jobs N]

Robustness test of the CHECKER (maintenance tool, not a registered check): apply behaviour-preserving AST transformations to every analysed
module in memory and run every claimed check on the transformed project.  Any VIOLATION is a false alarm of a rule (it matched spelling, not
behaviour); an ANALYSIS-ERROR is a rule that can no longer see its shape.  Nothing under /repo is written or executed.

transforms:
  flipcmp    a < b  ->  b > a   (single-operator comparisons)
  commute    a + b -> b + a,  a * b -> b * a   (not for string / list operands, not for matrix products)
  retvar     return E  ->  _ret = E; return _ret
  kworder    keyword arguments of every call in reverse order
  ifinvert   if c: A else: B  ->  if not c: B else: A   (plain if/else only)
  combo      the six above applied together
  swapadj    adjacent independent call-free assignments swapped
  dropelse   else after a branch that always returns / raises removed (its body follows the if)
  extractvar keyword arguments that are calls / arithmetic computed into a temporary right before the statement
  kw2pos     keyword arguments written positionally wherever the callee is a uniquely resolved project function
  aug2assign counters written x = x + 1 instead of x += 1
  addelse    the inverse: statements after such an if moved into an else
  rename     every purely local variable v of a function renamed v_r  (parameters, globals, closure variables untouched)
"""
import ast, sys, os, json, copy, multiprocessing as mp
sys.path.insert(0, "/verif")
from sa.model import Project, REPO  # noqa


class FlipCmp(ast.NodeTransformer):
    MAP = {ast.Lt: ast.Gt, ast.Gt: ast.Lt, ast.LtE: ast.GtE, ast.GtE: ast.LtE}

    def visit_Compare(self, n):
        self.generic_visit(n)
        if len(n.ops) == 1 and type(n.ops[0]) in self.MAP:
            return ast.Compare(left=n.comparators[0], ops=[self.MAP[type(n.ops[0])]()], comparators=[n.left])
        return n


def _stringy(e):
    return isinstance(e, (ast.JoinedStr, ast.List, ast.Tuple, ast.ListComp)) or (isinstance(e, ast.Constant) and isinstance(e.value, (str, bytes))) or \
        (isinstance(e, ast.Call) and isinstance(e.func, ast.Name) and e.func.id in ("str", "list", "tuple", "repr")) or \
        (isinstance(e, ast.Call) and isinstance(e.func, ast.Attribute) and e.func.attr in ("format", "join")) or \
        (isinstance(e, ast.BinOp) and isinstance(e.op, (ast.Add, ast.Mod)) and (_stringy(e.left) or _stringy(e.right)))


class Commute(ast.NodeTransformer):
    def visit_BinOp(self, n):
        self.generic_visit(n)
        if isinstance(n.op, (ast.Add, ast.Mult)) and not _stringy(n.left) and not _stringy(n.right):
            return ast.BinOp(left=n.right, op=n.op, right=n.left)
        return n


class RetVar(ast.NodeTransformer):
    def _block(self, body):
        out = []
        for st in body:
            st = self.visit(st)
            if isinstance(st, ast.Return) and st.value is not None and not isinstance(st.value, (ast.Name, ast.Constant)):
                out.append(ast.Assign(targets=[ast.Name(id="_ret", ctx=ast.Store())], value=st.value, lineno=st.lineno))
                out.append(ast.Return(value=ast.Name(id="_ret", ctx=ast.Load())))
            else:
                out.append(st)
        return out

    def generic_visit(self, node):
        for fld in ("body", "orelse", "finalbody"):
            blk = getattr(node, fld, None)
            if isinstance(blk, list) and blk and isinstance(blk[0], ast.stmt):
                setattr(node, fld, self._block(blk))
        if isinstance(node, ast.Try):
            for h in node.handlers:
                h.body = self._block(h.body)
        return node

    def visit(self, node):
        if isinstance(node, ast.Lambda):
            return node
        return self.generic_visit(node)


class KwOrder(ast.NodeTransformer):
    def visit_Call(self, n):
        self.generic_visit(n)
        if len(n.keywords) > 1 and all(k.arg is not None for k in n.keywords):
            n.keywords = list(reversed(n.keywords))
        return n


class IfInvert(ast.NodeTransformer):
    def visit_If(self, n):
        self.generic_visit(n)
        if n.orelse and not (len(n.orelse) == 1 and isinstance(n.orelse[0], ast.If)):
            t = n.test
            nt = t.operand if (isinstance(t, ast.UnaryOp) and isinstance(t.op, ast.Not)) else ast.UnaryOp(op=ast.Not(), operand=t)
            return ast.If(test=nt, body=n.orelse, orelse=n.body)
        return n


class Rename(ast.NodeTransformer):
    """rename purely local variables of each function (not parameters, not names declared global/nonlocal, not names read by nested functions, not names the function only reads)"""

    def visit_FunctionDef(self, f):
        # nested functions first
        for i, st in enumerate(f.body):
            f.body[i] = self.visit(st) if isinstance(st, (ast.FunctionDef, ast.ClassDef)) else st
        params = {a.arg for a in f.args.posonlyargs + f.args.args + f.args.kwonlyargs}
        if f.args.vararg:
            params.add(f.args.vararg.arg)
        if f.args.kwarg:
            params.add(f.args.kwarg.arg)
        stored, banned = set(), set(params)

        def scan(node, top):
            for ch in ast.iter_child_nodes(node):
                if isinstance(ch, (ast.FunctionDef, ast.AsyncFunctionDef, ast.Lambda, ast.ClassDef)):
                    for nm in ast.walk(ch):
                        if isinstance(nm, ast.Name):
                            banned.add(nm.id)
                    continue
                if isinstance(ch, (ast.Global, ast.Nonlocal)):
                    banned.update(ch.names)
                if isinstance(ch, ast.Name) and isinstance(ch.ctx, (ast.Store, ast.Del)):
                    stored.add(ch.id)
                if isinstance(ch, (ast.ListComp, ast.SetComp, ast.DictComp, ast.GeneratorExp)):
                    for g in ch.generators:
                        for nm in ast.walk(g.target):
                            if isinstance(nm, ast.Name):
                                banned.add(nm.id)
                if isinstance(ch, ast.ExceptHandler) and ch.name:
                    banned.add(ch.name)
                if isinstance(ch, (ast.Import, ast.ImportFrom)):
                    for a in ch.names:
                        banned.add((a.asname or a.name).split(".")[0])
                scan(ch, False)
        scan(f, True)
        ren = {v: v + "_r" for v in stored - banned if not v.startswith("__")}

        class R(ast.NodeTransformer):
            def visit_FunctionDef(s, n):
                return n

            visit_AsyncFunctionDef = visit_Lambda = visit_ClassDef = visit_FunctionDef

            def visit_Name(s, n):
                if n.id in ren:
                    return ast.Name(id=ren[n.id], ctx=n.ctx)
                return n
        for i, st in enumerate(f.body):
            if not isinstance(st, (ast.FunctionDef, ast.ClassDef)):
                f.body[i] = R().visit(st)
        return f

    def visit_ClassDef(self, c):
        for i, st in enumerate(c.body):
            c.body[i] = self.visit(st)
        return c


def _names_of(n, ctx=None):
    return {x.id for x in ast.walk(n) if isinstance(x, ast.Name) and (ctx is None or isinstance(x.ctx, ctx))}


def _has_call(n):
    return any(isinstance(x, ast.Call) for x in ast.walk(n))


class SwapAdj(ast.NodeTransformer):
    """swap adjacent simple assignments `a = E1; b = E2` that do not depend on each other and contain no calls (so evaluation order is unobservable)"""

    def _block(self, body):
        out = list(body)
        i = 0
        while i + 1 < len(out):
            a, b = out[i], out[i + 1]
            if (isinstance(a, ast.Assign) and isinstance(b, ast.Assign) and all(isinstance(t, ast.Name) for t in a.targets + b.targets)
                    and not _has_call(a) and not _has_call(b)):
                ta, tb = _names_of(a, ast.Store), _names_of(b, ast.Store)
                if not (ta & _names_of(b)) and not (tb & _names_of(a)):
                    out[i], out[i + 1] = b, a
                    i += 2
                    continue
            i += 1
        return out

    def generic_visit(self, node):
        super().generic_visit(node)
        for fld in ("body", "orelse", "finalbody"):
            blk = getattr(node, fld, None)
            if isinstance(blk, list) and blk and isinstance(blk[0], ast.stmt):
                setattr(node, fld, self._block(blk))
        return node


def _terminates(body):
    if not body:
        return False
    last = body[-1]
    if isinstance(last, (ast.Return, ast.Raise, ast.Continue, ast.Break)):
        return True
    if isinstance(last, ast.If):
        return _terminates(last.body) and _terminates(last.orelse)
    return False


class DropElse(ast.NodeTransformer):
    """if c: ...return/raise  else: B   ->   if c: ...return/raise ; B"""

    def _block(self, body):
        out = []
        for st in body:
            if isinstance(st, ast.If) and st.orelse and _terminates(st.body):
                rest = st.orelse
                st.orelse = []
                out.append(st)
                out.extend(rest)
            else:
                out.append(st)
        return out

    def generic_visit(self, node):
        super().generic_visit(node)
        for fld in ("body", "orelse", "finalbody"):
            blk = getattr(node, fld, None)
            if isinstance(blk, list) and blk and isinstance(blk[0], ast.stmt):
                setattr(node, fld, self._block(blk))
        return node


class AddElse(ast.NodeTransformer):
    """if c: ...return/raise ; B   ->   if c: ...return/raise  else: B   (the rest of the block moves into the else)"""

    def _block(self, body):
        for i, st in enumerate(body):
            if isinstance(st, ast.If) and not st.orelse and _terminates(st.body) and i + 1 < len(body):
                st.orelse = self._block(body[i + 1:])
                return body[:i + 1]
        return body

    def generic_visit(self, node):
        super().generic_visit(node)
        for fld in ("body", "orelse", "finalbody"):
            blk = getattr(node, fld, None)
            if isinstance(blk, list) and blk and isinstance(blk[0], ast.stmt):
                setattr(node, fld, self._block(blk))
        return node


class ExtractVar(ast.NodeTransformer):
    """keyword arguments that are calls / arithmetic are computed into a temporary right before the statement:  f(a=g(x))  ->  _t0 = g(x); f(a=_t0)
    (only for assignments / returns / expression statements whose value is that call, so evaluation order is preserved)"""

    def __init__(self):
        self.k = 0

    def _block(self, body):
        out = []
        for st in body:
            call = None
            if isinstance(st, (ast.Assign, ast.Return, ast.Expr)) and isinstance(getattr(st, "value", None), ast.Call):
                call = st.value
            if call is not None and call.keywords and all(k.arg is not None for k in call.keywords) and not any(isinstance(a, ast.Starred) for a in call.args):
                for kw in call.keywords:
                    if isinstance(kw.value, (ast.Call, ast.BinOp, ast.Subscript)) and not any(isinstance(x, (ast.Lambda, ast.NamedExpr, ast.Yield, ast.Await)) for x in ast.walk(kw.value)):
                        nm = f"_t{self.k}"
                        self.k += 1
                        out.append(ast.Assign(targets=[ast.Name(id=nm, ctx=ast.Store())], value=kw.value, lineno=st.lineno))
                        kw.value = ast.Name(id=nm, ctx=ast.Load())
            out.append(st)
        return out

    def generic_visit(self, node):
        super().generic_visit(node)
        for fld in ("body", "orelse", "finalbody"):
            blk = getattr(node, fld, None)
            if isinstance(blk, list) and blk and isinstance(blk[0], ast.stmt):
                setattr(node, fld, self._block(blk))
        if isinstance(node, ast.Try):
            for h in node.handlers:
                h.body = self._block(h.body)
        return node

    def visit_FunctionDef(self, node):
        self.k = 0
        return self.generic_visit(node)


class Aug2Assign(ast.NodeTransformer):
    """x += c  ->  x = x + c   for plain names and numeric constants (counters; for scalars the two are the same statement)"""

    def visit_AugAssign(self, n):
        if isinstance(n.target, ast.Name) and isinstance(n.value, ast.Constant) and isinstance(n.value.value, (int, float)) and not isinstance(n.value.value, bool) and isinstance(n.op, (ast.Add, ast.Sub)):
            return ast.copy_location(ast.Assign(targets=[ast.Name(id=n.target.id, ctx=ast.Store())], value=ast.BinOp(left=ast.Name(id=n.target.id, ctx=ast.Load()), op=n.op, right=n.value)), n)
        return n


class Combo(ast.NodeTransformer):
    """all of the above, one after the other"""

    def visit(self, tree):
        for T in (Rename, FlipCmp, Commute, KwOrder, IfInvert, RetVar):
            tree = T().visit(tree)
            ast.fix_missing_locations(tree)
        return tree


TRANSFORMS = {"flipcmp": FlipCmp, "commute": Commute, "retvar": RetVar, "kworder": KwOrder, "ifinvert": IfInvert, "rename": Rename, "combo": Combo, "swapadj": SwapAdj, "dropelse": DropElse, "addelse": AddElse, "extractvar": ExtractVar, "kw2pos": None, "aug2assign": Aug2Assign}


def _kw2pos_sources():
    """keyword arguments turned into positional ones wherever the callee resolves to exactly one project function and the keywords form a prefix of its remaining parameters"""
    p = Project()
    n = 0
    for f in p.all_functions():
        for c in f.calls():
            tg = p.resolve_call(c, f)
            if len(tg) != 1 or not c.keywords or any(k.arg is None for k in c.keywords) or any(isinstance(a, ast.Starred) for a in c.args):
                continue
            t = tg[0]
            params = list(t.call_params)
            if t.vararg or len(c.args) > len(params):
                continue
            rest = params[len(c.args):]
            kws = {k.arg: k for k in c.keywords}
            moved = []
            for name in rest:
                if name in kws and name not in t.kwonly:
                    moved.append(kws[name])
                else:
                    break
            if not moved:
                continue
            c.args = list(c.args) + [k.value for k in moved]
            c.keywords = [k for k in c.keywords if k not in moved]
            n += 1
    out = {}
    for m in p.modules.values():
        if m.relpath.startswith("autoarray/plot") or "/util/nn/" in m.relpath:
            continue
        ast.fix_missing_locations(m.tree)
        out[m.relpath] = ast.unparse(m.tree)
    return out


def transformed_sources(tname):
    if tname == "kw2pos":
        return _kw2pos_sources()
    out = {}
    for root, _, files in os.walk(os.path.join(REPO, "autoarray")):
        for fn in files:
            if not fn.endswith(".py"):
                continue
            path = os.path.join(root, fn)
            rel = os.path.relpath(path, REPO)
            if rel.startswith("autoarray/plot") or "/util/nn/" in rel:
                continue
            src = open(path, newline="").read().replace("\r\n", "\n")
            try:
                tree = ast.parse(src)
            except SyntaxError:
                continue
            tree = TRANSFORMS[tname]().visit(tree)
            ast.fix_missing_locations(tree)
            new = ast.unparse(tree)
            compile(new, rel, "exec")
            out[rel] = new
    return out


def run_one(args):
    tname, pid = args
    import io, contextlib
    from sa.main import run_rules
    try:
        p = Project(overrides=transformed_sources(tname))
        with contextlib.redirect_stdout(io.StringIO()):
            ctx = run_rules(pid, "quick", p)
        from sa.report import load_known
        known = {k["key"] for k in load_known().get("known", [])}
        viol = [f.text()[:300] for f in ctx.findings if f.key not in known]
        return (tname, pid, viol, [e[:300] for e in ctx.analysis_errors])
    except Exception as e:  # noqa
        import traceback
        return (tname, pid, [], ["EXC " + repr(e)[:200] + " " + traceback.format_exc()[-400:]])


if __name__ == "__main__":
    argv = sys.argv[1:]
    pids, ts, jobs = [], [], 16
    i = 0
    while i < len(argv):
        if argv[i] == "--pid":
            pids.append(argv[i + 1]); i += 2
        elif argv[i] == "--jobs":
            jobs = int(argv[i + 1]); i += 2
        else:
            ts.append(argv[i]); i += 1
    ts = ts or list(TRANSFORMS)
    man = json.load(open("/verif/MANIFEST.json"))
    pids = pids or [c["property_id"] for c in man["checks"]]
    # baseline: identity through unparse (formatting / comments lost only)
    TRANSFORMS["identity"] = ast.NodeTransformer
    work = [(t, p) for t in ["identity"] + ts for p in pids]
    with mp.Pool(jobs) as pool:
        res = pool.map(run_one, work)
    bad = 0
    for t, p, viol, errs in res:
        if viol or errs:
            bad += 1
            print(f"== {t} {p}: {len(viol)} violation(s), {len(errs)} analysis error(s)")
            for v in viol[:40]:
                print("   V", v)
            for e in errs[:40]:
                print("   E", e)
    print(f"{len(res)} (transform, property) pairs, {bad} not silent")
