#!/bin/sh
# try_pair.sh <seed id> [check ...]  - run the given checks (default: the seed's own property) on the seed (expected: VIOLATION) and on its corrected twin (expected: silent)
s=$1; shift; pid=${s%-*}; checks=${@:-$pid}
for kind in seeded twins; do
  [ -f /verif/$kind/$s/patch.diff ] || { echo "no $kind/$s"; continue; }
  git -C /repo apply --whitespace=nowarn /verif/$kind/$s/patch.diff || exit 3
  for c in $checks; do echo "== $kind/$s $c"; /verif/check $c --tier quick --no-evidence 2>&1 | grep -v "^NOTE\|^KNOWN\|^VIOLATION" | cut -c1-${W:-330} | head -${N:-8}; done
  git -C /repo checkout -- .
done
