#!/bin/sh
# usage: tools/try_refactor.sh Cxx-n  -- applies the refactor to /repo, runs the property's quick check, reverts
id=$1; prop=${id%-*}
git -C /repo apply /verif/refactors/$id/patch.diff || exit 3
/verif/check $prop --tier quick 2>&1 | grep -A1 "^\s*autoarray\|^\[$prop\|ANALYSIS\|Traceback" | cut -c1-${2:-700}
git -C /repo checkout -- .
