#!/venv/bin/python
"""coverage_audit.py - which functions of each property's anchor files does no rule of that property ever look at?
Maintenance tool: instruments the project model (body_nodes / calls / KEval.summarize) while the property's rules run on the clean tree."""
import sys, json, io, contextlib
sys.path.insert(0, "/verif")
from sa import model, keval
from sa.main import run_rules
touched = set()
for name in ("body_nodes", "calls"):
    orig = getattr(model.FuncInfo, name)
    def wrap(self, *a, _o=orig, **k):
        touched.add(self.key); return _o(self, *a, **k)
    setattr(model.FuncInfo, name, wrap)
osum = keval.KEval.summarize
def wsum(self, func, *a, **k):
    touched.add(func.key); return osum(self, func, *a, **k)
keval.KEval.summarize = wsum
oinl = getattr(keval.KEval, "inline", None)
props = [json.loads(l) for l in open("/verif/properties.jsonl")]
only = sys.argv[1:]
for d in props:
    pid = d["id"]
    if only and pid not in only: continue
    p = model.Project()
    touched.clear()   # loading the project itself walks every function (N8)
    with contextlib.redirect_stdout(io.StringIO()):
        ctx = run_rules(pid, "quick", p)
    files = [f for f in d["anchors"]["files"] if f.endswith(".py")]
    print(f"== {pid}: {len(touched)} functions looked at")
    for rel in files:
        mod = [m for m in p.modules.values() if m.relpath == rel]
        if not mod: continue
        fs = [f for f in p.all_functions() if f.module is mod[0] and f.parent is None]
        un = [f.qualname for f in fs if f.key not in touched and not f.name.startswith("__")]
        print(f"   {rel}: {len(fs) - len(un)}/{len(fs)} looked at; not: {', '.join(un[:40])}{' ...' if len(un) > 40 else ''}")
