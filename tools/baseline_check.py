#!/venv/bin/python
"""Run the repository's pinned test suite and compare with BASELINE.json's stable_pass list.
Maintenance tool (used after fix: commits); not a registered check."""
import json, subprocess, sys, tempfile, os, xml.etree.ElementTree as ET
repo = sys.argv[1] if len(sys.argv) > 1 else "/repo"
base = json.load(open("/root/.vp/BASELINE.json"))
want = set(base["stable_pass"])
fd, path = tempfile.mkstemp(suffix=".xml"); os.close(fd)
cmd = ["/venv/bin/python", "-m", "pytest", "-q", "-p", "no:cacheprovider", "--timeout=900",
       "--continue-on-collection-errors", "-n", "12", "--junitxml=" + path]
p = subprocess.run(cmd, cwd=repo, capture_output=True, text=True, env={**os.environ, "PYTHONPATH": repo})
passed = set()
for tc in ET.parse(path).getroot().iter("testcase"):
    if not any(c.tag in ("failure", "error", "skipped") for c in tc):
        passed.add(tc.get("classname") + "::" + tc.get("name"))
missing = sorted(want - passed)
if missing:
    # file-writing tests race under xdist: re-run the missing ones serially before believing them
    ids = []
    for m in missing:
        mod, name = m.split("::", 1)
        ids.append(mod.replace(".", "/") + ".py::" + name)
    q = subprocess.run(["/venv/bin/python", "-m", "pytest", "-q", "-p", "no:cacheprovider", "-W", "ignore", "--junitxml=" + path] + ids,
                       cwd=repo, capture_output=True, text=True, env={**os.environ, "PYTHONPATH": repo})
    for tc in ET.parse(path).getroot().iter("testcase"):
        if not any(c.tag in ("failure", "error", "skipped") for c in tc):
            passed.add(tc.get("classname") + "::" + tc.get("name"))
    os.unlink(path)
    missing = sorted(want - passed)
subprocess.run(["git", "-C", repo, "checkout", "--", "test_autoarray"])
print("stable_pass", len(want), "passed now", len(passed), "missing", len(missing))
for m in missing: print("  MISSING", m)
print(p.stdout.strip().splitlines()[-1] if p.stdout.strip() else p.stderr[-500:])
sys.exit(1 if missing else 0)
