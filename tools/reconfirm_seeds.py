#!/venv/bin/python
"""reconfirm_seeds.py [seed ...] - re-run every stored seed's demo against the CURRENT /repo HEAD in a scratch worktree (clean: exit 0, patched: exit != 0).
Used after a fix: commit, because a repair can make an older seed harmless (its demo then passes with the patch) - such seeds are reported, not silently kept."""
import glob, json, os, shutil, subprocess, sys
seeds = sys.argv[1:] or sorted(os.path.basename(d) for d in glob.glob("/verif/seeded/C*-*"))
scratch = "/tmp/reconfirm_wt"
subprocess.run(["git", "-C", "/repo", "worktree", "remove", "--force", scratch], capture_output=True)
subprocess.run(["git", "-C", "/repo", "worktree", "add", "-q", "--detach", scratch, "HEAD"], check=True)
out = {}
try:
    for s in seeds:
        d = f"/verif/seeded/{s}"
        def demo():
            local = os.path.join(scratch, "_demo_under_test.py"); shutil.copy(f"{d}/demo.py", local)
            try:
                p = subprocess.run(["/venv/bin/python", "-W", "ignore", local], cwd=scratch, capture_output=True, text=True, env={**os.environ, "PYTHONPATH": scratch}, timeout=900)
                return p.returncode
            except subprocess.TimeoutExpired:
                return -9
        subprocess.run(["git", "-C", scratch, "checkout", "--", "."], check=True)
        c = demo()
        ap = subprocess.run(["git", "-C", scratch, "apply", "--whitespace=nowarn", f"{d}/patch.diff"], capture_output=True, text=True)
        pr = demo() if ap.returncode == 0 else None
        subprocess.run(["git", "-C", scratch, "checkout", "--", "."], check=True)
        subprocess.run(["git", "-C", scratch, "clean", "-fdq"], check=True)
        ok = c == 0 and ap.returncode == 0 and pr not in (0, None)
        out[s] = {"clean": c, "applies": ap.returncode == 0, "patched": pr, "still_breaking": ok}
        print(s, "ok" if ok else f"NO LONGER VALID clean={c} applies={ap.returncode == 0} patched={pr}", flush=True)
finally:
    subprocess.run(["git", "-C", "/repo", "worktree", "remove", "--force", scratch], capture_output=True)
json.dump(out, open("/verif/seeded/reconfirm.json", "w"), indent=1, sort_keys=True)
