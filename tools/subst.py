#!/venv/bin/python
"""subst.py FILE  (reads a python literal list of (old,new[,count]) from stdin) -- newline-preserving exact replacement."""
import sys, ast
p = sys.argv[1]
pairs = ast.literal_eval(sys.stdin.read())
s = open(p, newline='').read()
crlf = '\r\n' in s
for item in pairs:
    old, new = item[0], item[1]
    cnt = item[2] if len(item) > 2 else 1
    if crlf:
        old = old.replace('\r\n', '\n').replace('\n', '\r\n'); new = new.replace('\r\n', '\n').replace('\n', '\r\n')
    assert s.count(old) == cnt, (p, old, s.count(old))
    s = s.replace(old, new)
open(p, 'w', newline='').write(s)
print("ok", p)
