#!/venv/bin/python
"""gen_alpha_reference.py - (re)generate sa/alpha_reference.json from the CLEAN /repo tree (run after every fix: commit; /repo must have no local modifications).
For every function of every analysed module: digest of the alpha-normal form of its canonicalised body + its local names in first-occurrence order (see sa/canon.py, N5)."""
import ast, json, os, subprocess, sys, warnings
sys.path.insert(0, "/verif")
from sa.canon import canonicalise_names_free as canonicalise, alpha_table
assert subprocess.run(["git", "-C", "/repo", "status", "--porcelain", "--untracked-files=no"], capture_output=True, text=True).stdout.strip() == "", "/repo not clean"
out = {}
for root, _, files in os.walk("/repo/autoarray"):
    for fn in sorted(files):
        if not fn.endswith(".py"):
            continue
        path = os.path.join(root, fn); rel = os.path.relpath(path, "/repo")
        src = open(path, newline="").read().replace("\r\n", "\n")
        with warnings.catch_warnings():
            warnings.simplefilter("ignore")
            try:
                tree = canonicalise(ast.parse(src))
            except SyntaxError:
                continue
        t = alpha_table(tree)
        if t:
            out[rel] = t
json.dump({"_repo_head": subprocess.run(["git", "-C", "/repo", "rev-parse", "--short", "HEAD"], capture_output=True, text=True).stdout.strip(), **out},
          open("/verif/sa/alpha_reference.json", "w"), indent=0, sort_keys=True)
print("functions", sum(len(v) for v in out.values()), "modules", len(out))
