"""Triage tool (NOT a registered check, not part of the static analysis): runs fnnls_cholesky on random SPD systems and tests the KKT conditions.
Used once to confirm that the C05.state finding on the warm start was a genuine defect and that fix a8b36c1 repairs it (0 / 3000 non-optimal, before: ~5-25%)."""
import numpy as np, sys, time
sys.path.insert(0,'/repo')
import warnings; warnings.filterwarnings('ignore')
from autoarray.util import fnnls
import inspect
src = inspect.getsource(fnnls.fnnls_cholesky)
old = """        P_number = np.arange(len(P), dtype="int")
        P_inorder = P_number[P_initial]
        s_chol[P] = lstsq((ZTZ)[P][:, P], (ZTx)[P])
        d = s_chol.clip(min=0)
"""
new = """        P_number = np.arange(len(P), dtype="int")
        s_chol[P] = lstsq((ZTZ)[P][:, P], (ZTx)[P])
        while np.any(P) and np.min(s_chol[P]) <= tolerance:
            P[s_chol <= tolerance] = False
            s_chol[:] = 0.0
            if np.any(P):
                s_chol[P] = lstsq((ZTZ)[P][:, P], (ZTx)[P])
        P_inorder = P_number[P]
        d = s_chol.copy()
        w = ZTx - (ZTZ) @ d
"""

variants={"repo":src}
def kkt(A,b,s,tol=1e-7):
    g=A@s-b; sc=max(1,abs(b).max())
    return (s>=-tol).all() and (abs(g[s>tol])<tol*sc).all() and (g[s<=tol]>=-tol*sc).all()
for name,sr in variants.items():
    ns = dict(fnnls.__dict__); exec(sr, ns); f=ns['fnnls_cholesky']
    for mode in ('warm','cold'):
        rng=np.random.default_rng(1)
        bad=0; err=0; tot=0; t0=time.time(); maxdiff=0
        for t in range(3000):
            n=rng.integers(2,40)
            Z=rng.normal(size=(n+rng.integers(0,8),n)); A=Z.T@Z+10**rng.uniform(-3,0)*np.eye(n); b=Z.T@rng.normal(size=Z.shape[0])+rng.normal(size=n)*rng.choice([0,1])
            P0=(np.linalg.solve(A,b)>0) if mode=='warm' else np.zeros(0,dtype=int)
            try: s=f(A.copy(),b.copy(),P_initial=P0)
            except Exception as e: err+=1; continue
            tot+=1
            if not kkt(A,b,s): bad+=1
        print(name,mode,'total',tot,'non-optimal',bad,'errors',err,'time %.1fs'%(time.time()-t0))
