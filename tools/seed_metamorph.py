#!/venv/bin/python
"""seed_metamorph.py [--transforms t1,t2] [seed ...]
Detection under spelling variation (maintenance tool): each stored seed is applied to /repo, then the checks that report it on the plain tree are run again on the
in-memory metamorphic variants of the SEEDED tree (locals renamed with no reference names to fall back on, last return expression of every function extracted into
a new helper, single-use temporaries inlined, comparison / polarity / keyword-order variants).  A seed that is reported as written but not in a variant is a detection
that depended on spelling.  Nothing is written under /repo except the seed patch, which is reverted."""
import json, os, subprocess, sys, multiprocessing as mp
sys.path.insert(0, "/verif/tools"); sys.path.insert(0, "/verif")
import warnings; warnings.simplefilter("ignore")
os.chdir("/verif")
import metamorph as M

def main():
    argv = sys.argv[1:]
    ts = ["renamenon5", "extracthelper", "inlinetemp", "combo"]
    if argv and argv[0] == "--transforms":
        ts = argv[1].split(","); argv = argv[2:]
    res = json.load(open("seeded/results.json"))
    seeds = argv or sorted(k for k in res if os.path.isdir(f"seeded/{k}"))
    assert subprocess.run(["git", "-C", "/repo", "status", "--porcelain", "--untracked-files=no"], capture_output=True, text=True).stdout.strip() == "", "/repo not clean"
    out = {}
    bad = 0
    for s in seeds:
        catchers = res.get(s, {}).get("caught_by", [])
        if not catchers:
            print(s, "not reported as written (undecided): skipped"); continue
        ap = subprocess.run(["git", "-C", "/repo", "apply", "--whitespace=nowarn", os.path.abspath(f"seeded/{s}/patch.diff")], capture_output=True, text=True)
        if ap.returncode != 0:
            print(s, "PATCH DOES NOT APPLY"); continue
        try:
            work = [(t, p) for t in ts for p in catchers]
            with mp.Pool(min(16, len(work))) as pool:
                r = pool.map(M.run_one, work)
        finally:
            subprocess.run(["git", "-C", "/repo", "checkout", "--", "."], check=True)
        lost = {}
        for t in ts:
            hit = [p for (tt, p, viol, errs) in r if tt == t and viol]
            err = [p for (tt, p, viol, errs) in r if tt == t and errs and not viol]
            if not hit:
                lost[t] = "exit 2: " + ",".join(err) if err else "SILENT"
        out[s] = lost
        if lost:
            bad += 1
        print(s, "reported under all variants" if not lost else f"LOST under {lost}", flush=True)
    json.dump(out, open("seeded/metamorph_results.json", "w"), indent=1, sort_keys=True)
    print(f"{len(out)} seeds, {bad} lose their report under some variant")

if __name__ == "__main__":
    main()
