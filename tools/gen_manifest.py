#!/venv/bin/python
"""Generate /verif/MANIFEST.json from the table below (kept here so the manifest stays valid and consistent)."""
import json, os, sys
sys.path.insert(0, os.path.dirname(os.path.dirname(os.path.abspath(__file__))))
from sa.manifest_data import CHECKS, NOT_APPLICABLE

checks = []
for pid, d in sorted(CHECKS.items()):
    checks.append({
        "property_id": pid,
        "quick_cmd": f"./check {pid} --tier quick",
        "thorough_cmd": f"./check {pid} --tier thorough",
        "evidence_file": f"evidence/{pid}.json",
        "replay_cmd_template": f"./check {pid} --replay {{path}}",
        "engine": "sa",
        "level_claimed": {"category": "other", "text": d["text"], "design_ref": d.get("design_ref", f"DESIGN.md section 4, {pid}")},
        "level_note": d["note"],
        "technique": d["technique"],
    })
m = {
    "version": 1,
    "setup_cmd": "true",
    "hooks": {"guard": "PYAUTOARRAY_VERIF", "enable": "no hooks: nothing in /repo is instrumented; the checks only parse the source",
              "baseline_off_cmd": "cd /repo && /venv/bin/python -m pytest -ra -q -p no:cacheprovider --timeout=900 --continue-on-collection-errors",
              "source_commits": [], "add_only": True},
    "engines": [{"name": "sa", "path": "sa/", "serves_properties": sorted(CHECKS),
                 "kind_free_text": "purpose-built static analysis over Python's ast: project model + resolver, polynomial-normal-form abstract evaluation of kernels, "
                                   "axis/tag inference, traversal typestate, effect/alias summaries, geometry forwarding, name-free path summaries of wiring functions (decision tables), a canonicalisation pass "
                                   "(N1-N16) and inlining of helpers that are new w.r.t. the reference snapshot, structural wiring rules"}],
    "checks": checks,
    "notes": "Static analysis only: every check parses /repo's current working tree and decides rule instances from the source; nothing under /repo is imported or executed. "
             "Exit 0 = obligations hold (KNOWN-FINDING lines for listed defects), 1 = VIOLATION, 2 = ANALYSIS-ERROR (anchor vanished / undecidable). See DESIGN.md.",
    "not_applicable": [{"property_id": k, "reason": v} for k, v in sorted(NOT_APPLICABLE.items())],
}
out = os.path.join(os.path.dirname(os.path.dirname(os.path.abspath(__file__))), "MANIFEST.json")
json.dump(m, open(out, "w"), indent=1)
print("wrote", out, len(checks), "checks", len(NOT_APPLICABLE), "not applicable")
try:
    import jsonschema
    jsonschema.validate(m, json.load(open("/root/.vp/MANIFEST.schema.json")))
    print("schema ok")
except ImportError:
    print("(jsonschema not importable here; validate with python3-vt)")
