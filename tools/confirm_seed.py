#!/venv/bin/python
"""confirm_seed.py <agent worktree> <N> <property id> [store number]
Independently confirm a sub-agent's mutation in a fresh scratch worktree of /repo:
 demo passes on the clean tree, fails with the patch, pinned baseline tests still pass with the patch.
If confirmed, store it as /verif/seeded/<pid>-<N>/ (patch.diff, demo.py, meta.json).  The scratch worktree is removed."""
import json, os, shutil, subprocess, sys, re
wt, n, pid = sys.argv[1], sys.argv[2], sys.argv[3]
store_n = sys.argv[4] if len(sys.argv) > 4 else n  # number under which the seed is stored (round 2: 3, 4)
patch = os.path.join(wt, f"mutation_{n}.patch"); demo = os.path.join(wt, f"demo_{n}.py")
assert os.path.exists(patch) and os.path.exists(demo), "missing deliverables"
scratch = f"/tmp/confirm_{pid}_{store_n}"
subprocess.run(["git", "-C", "/repo", "worktree", "remove", "--force", scratch], capture_output=True)
subprocess.run(["git", "-C", "/repo", "worktree", "add", "-q", "--detach", scratch, "HEAD"], check=True)
res = {}
def run_demo():
    local = os.path.join(scratch, "_demo_under_test.py")
    shutil.copy(demo, local)  # the script's own directory is sys.path[0]: it must live in the tree under test
    p = subprocess.run(["/venv/bin/python", local], cwd=scratch, capture_output=True, text=True, env={**os.environ, "PYTHONPATH": scratch}, timeout=900)
    return p.returncode, (p.stdout + p.stderr)[-600:]
try:
    res["demo_clean_rc"], res["demo_clean_tail"] = run_demo()
    ap = subprocess.run(["git", "-C", scratch, "apply", "--whitespace=nowarn", patch], capture_output=True, text=True)
    res["apply_rc"] = ap.returncode; res["apply_err"] = ap.stderr[-300:]
    if ap.returncode == 0:
        st = subprocess.run(["git", "-C", scratch, "diff", "--stat"], capture_output=True, text=True).stdout
        res["diff_stat"] = st.strip().splitlines()[-1] if st.strip() else ""
        res["demo_patched_rc"], res["demo_patched_tail"] = run_demo()
        b = subprocess.run(["/venv/bin/python", "/verif/tools/baseline_check.py", scratch], capture_output=True, text=True)
        res["baseline_rc"] = b.returncode; res["baseline_out"] = b.stdout.strip().splitlines()[:3]
        c = subprocess.run(["/venv/bin/python", "-c", "import autoarray"], cwd=scratch, capture_output=True, text=True, env={**os.environ, "PYTHONPATH": scratch})
        res["import_rc"] = c.returncode
finally:
    subprocess.run(["git", "-C", "/repo", "worktree", "remove", "--force", scratch], capture_output=True)
ok = res.get("demo_clean_rc") == 0 and res.get("apply_rc") == 0 and res.get("demo_patched_rc", 0) != 0 and res.get("baseline_rc") == 1 - 1 and res.get("import_rc") == 0
res["confirmed"] = bool(ok)
print(json.dumps(res, indent=1))
if ok:
    d = f"/verif/seeded/{pid}-{store_n}"
    os.makedirs(d, exist_ok=True)
    shutil.copy(patch, os.path.join(d, "patch.diff")); shutil.copy(demo, os.path.join(d, "demo.py"))
    notes = ""
    np_ = os.path.join(wt, "NOTES.md")
    if os.path.exists(np_):
        notes = open(np_).read()
        shutil.copy(np_, os.path.join(d, "agent_notes.md"))
    meta = {"property": pid, "seed": f"{pid}-{store_n}", "round": (int(store_n) + 1) // 2, "source": "independent sub-agent given only the property text and a scratch worktree",
            "needs_to_manifest": "see agent_notes.md (section for this mutation)", "confirmed_by": "tools/confirm_seed.py in a fresh scratch worktree of /repo HEAD",
            "ran": {"demo on clean tree (exit)": res["demo_clean_rc"], "demo with patch (exit)": res["demo_patched_rc"], "baseline_check with patch": res["baseline_out"], "diff": res.get("diff_stat")},
            "repo_head": subprocess.run(["git", "-C", "/repo", "rev-parse", "--short", "HEAD"], capture_output=True, text=True).stdout.strip()}
    json.dump(meta, open(os.path.join(d, "meta.json"), "w"), indent=1)
    print("stored", d)
sys.exit(0 if ok else 1)
