#!/venv/bin/python
"""confirm_refactor.py <agent worktree> <PID> <N>
Independently confirm a sub-agent's BEHAVIOUR-PRESERVING refactor in a fresh scratch worktree of /repo: the agent's equivalence script prints the same digest on the clean and
on the patched tree, and the pinned baseline tests still pass with the patch.  If confirmed, store it as /verif/refactors/<PID>-<N>/ (patch.diff, equiv.py, meta.json)."""
import json, os, shutil, subprocess, sys
wt, pid, n = sys.argv[1], sys.argv[2], sys.argv[3]
patch = os.path.join(wt, f"refactor_{pid}_{n}.patch"); equiv = os.path.join(wt, f"equiv_{pid}_{n}.py")
assert os.path.exists(patch) and os.path.exists(equiv), f"missing deliverables {patch} {equiv}"
scratch = f"/tmp/confirm_rf_{pid}_{n}"
subprocess.run(["git", "-C", "/repo", "worktree", "remove", "--force", scratch], capture_output=True)
subprocess.run(["git", "-C", "/repo", "worktree", "add", "-q", "--detach", scratch, "HEAD"], check=True)
res = {}
def run_equiv():
    local = os.path.join(scratch, "_equiv_under_test.py"); shutil.copy(equiv, local)
    p = subprocess.run(["/venv/bin/python", "-W", "ignore", local], cwd=scratch, capture_output=True, text=True, env={**os.environ, "PYTHONPATH": scratch}, timeout=1200)
    import re
    # the verdict is the digest the script prints; log lines (with timestamps) are not part of it
    out = "\n".join(l for l in p.stdout.splitlines() if re.search(r"[0-9a-f]{40,64}", l) or re.match(r"^(items|outputs|digest|observations)\b", l.strip()))
    return p.returncode, out[-1500:]
try:
    res["clean_rc"], res["clean_out"] = run_equiv()
    ap = subprocess.run(["git", "-C", scratch, "apply", "--whitespace=nowarn", patch], capture_output=True, text=True)
    res["apply_rc"] = ap.returncode; res["apply_err"] = ap.stderr[-300:]
    if ap.returncode == 0:
        st = subprocess.run(["git", "-C", scratch, "diff", "--stat"], capture_output=True, text=True).stdout
        res["diff_stat"] = st.strip().splitlines()[-1] if st.strip() else ""
        res["patched_rc"], res["patched_out"] = run_equiv()
        b = subprocess.run(["/venv/bin/python", "/verif/tools/baseline_check.py", scratch], capture_output=True, text=True)
        res["baseline_rc"] = b.returncode; res["baseline_out"] = b.stdout.strip().splitlines()[:2]
finally:
    subprocess.run(["git", "-C", "/repo", "worktree", "remove", "--force", scratch], capture_output=True)
ok = res.get("clean_rc") == 0 and res.get("apply_rc") == 0 and res.get("patched_rc") == 0 and res.get("clean_out") == res.get("patched_out") and res.get("clean_out", "").strip() != "" and res.get("baseline_rc") == 0
res["confirmed"] = bool(ok)
print(json.dumps({k: (v if not isinstance(v, str) else v[-300:]) for k, v in res.items()}, indent=1))
if ok:
    d = f"/verif/refactors/{pid}-{n}"
    os.makedirs(d, exist_ok=True)
    shutil.copy(patch, os.path.join(d, "patch.diff")); shutil.copy(equiv, os.path.join(d, "equiv.py"))
    np_ = os.path.join(wt, "NOTES.md")
    if os.path.exists(np_):
        shutil.copy(np_, os.path.join(d, "agent_notes.md"))
    json.dump({"property": pid, "refactor": f"{pid}-{n}", "source": "independent sub-agent asked for a behaviour-preserving refactor of the code implementing the property",
               "confirmed_by": "tools/confirm_refactor.py: identical equivalence digest on clean and patched tree, baseline tests pass", "diff": res.get("diff_stat"), "digest_tail": res.get("clean_out", "")[-200:],
               "repo_head": subprocess.run(["git", "-C", "/repo", "rev-parse", "--short", "HEAD"], capture_output=True, text=True).stdout.strip()}, open(os.path.join(d, "meta.json"), "w"), indent=1)
    print("stored", d)
sys.exit(0 if ok else 1)
