#!/venv/bin/python
"""mutfuzz.py [--n N] [--seed S] [--pid Cxx ...]
Mutation fuzzing of the CHECKER (maintenance tool): random small syntactic mutants (comparison operator, arithmetic operator, off-by-one constant, swapped subscript constant,
deleted statement, negated condition) of the functions a property's rules look at are analysed in memory.  Outcomes per mutant: reported (VIOLATION), undecided (ANALYSIS-ERROR),
silent, or CRASH (a Python exception inside a rule - always a defect of the checker).  Silent mutants are listed: some are equivalent or outside what the property says, the
others are blind spots to look at.  Nothing under /repo is written or executed."""
import ast, sys, os, json, random, copy, io, contextlib, multiprocessing as mp
sys.path.insert(0, "/verif")
import warnings; warnings.simplefilter("ignore")
from sa.model import Project, REPO, FuncInfo
from sa import model, keval


def looked_at(pid):
    """keys of the functions the rules of pid touch on the clean tree"""
    touched = set()
    origs = {}
    for name in ("body_nodes", "calls"):
        orig = getattr(model.FuncInfo, name); origs[name] = orig
        def wrap(self, *a, _o=orig, **k):
            touched.add(self.key); return _o(self, *a, **k)
        setattr(model.FuncInfo, name, wrap)
    osum = keval.KEval.summarize
    def wsum(self, func, *a, **k):
        touched.add(func.key); return osum(self, func, *a, **k)
    keval.KEval.summarize = wsum
    from sa.main import run_rules
    p = Project(); touched.clear()
    with contextlib.redirect_stdout(io.StringIO()):
        run_rules(pid, "quick", p)
    for name, o in origs.items():
        setattr(model.FuncInfo, name, o)
    keval.KEval.summarize = osum
    return p, touched


CMP = {ast.Lt: ast.LtE, ast.LtE: ast.Lt, ast.Gt: ast.GtE, ast.GtE: ast.Gt, ast.Eq: ast.NotEq, ast.NotEq: ast.Eq}
BIN = {ast.Add: ast.Sub, ast.Sub: ast.Add, ast.Mult: ast.Add, ast.FloorDiv: ast.Div}


def sites(fn: ast.FunctionDef):
    out = []
    for n in ast.walk(fn):
        if isinstance(n, ast.Compare) and len(n.ops) == 1 and type(n.ops[0]) in CMP:
            out.append(("cmp", n))
        elif isinstance(n, ast.BinOp) and type(n.op) in BIN:
            out.append(("bin", n))
        elif isinstance(n, ast.Constant) and isinstance(n.value, int) and not isinstance(n.value, bool) and n.value in (0, 1, 2):
            out.append(("const", n))
        elif isinstance(n, ast.If):
            out.append(("neg", n))
        elif isinstance(n, (ast.Assign, ast.AugAssign, ast.Expr)) and not (isinstance(n, ast.Expr) and isinstance(n.value, ast.Constant)):
            out.append(("del", n))
    return out


def mutate(src: str, qual: str, idx: int):
    tree = ast.parse(src)
    target = None
    parts = qual.split(".")
    def find(body, parts):
        for st in body:
            if isinstance(st, (ast.FunctionDef, ast.ClassDef)) and st.name == parts[0]:
                return st if len(parts) == 1 else find(st.body, parts[1:])
        return None
    parts = [x for x in parts if x != "<locals>"]
    target = find(tree.body, parts)
    if target is None or not isinstance(target, ast.FunctionDef):
        return None, None
    ss = sites(target)
    if not ss:
        return None, None
    kind, n = ss[idx % len(ss)]
    desc = f"{kind}@{getattr(n, 'lineno', 0)}: {ast.unparse(n)[:70]}"
    if kind == "cmp":
        n.ops = [CMP[type(n.ops[0])]()]
    elif kind == "bin":
        n.op = BIN[type(n.op)]()
    elif kind == "const":
        n.value = n.value + 1
    elif kind == "neg":
        n.test = ast.UnaryOp(op=ast.Not(), operand=n.test)
    elif kind == "del":
        for par in ast.walk(target):
            for fld in ("body", "orelse", "finalbody"):
                blk = getattr(par, fld, None)
                if isinstance(blk, list) and any(x is n for x in blk):
                    i = [k for k, x in enumerate(blk) if x is n][0]
                    blk[i] = ast.Pass()
    ast.fix_missing_locations(tree)
    try:
        new = ast.unparse(tree)
        compile(new, "m", "exec")
    except Exception:
        return None, None
    return new, desc


def run(args):
    pid, rel, qual, idx = args
    src = open(os.path.join(REPO, rel), newline="").read().replace("\r\n", "\n")
    new, desc = mutate(src, qual, idx)
    if new is None:
        return None
    from sa.main import run_rules
    from sa.report import load_known
    try:
        p = Project(overrides={rel: new})
        with contextlib.redirect_stdout(io.StringIO()):
            ctx = run_rules(pid, "quick", p)
        known = {k["key"] for k in load_known().get("known", [])}
        viol = [f for f in ctx.findings if f.key not in known]
        out = "reported" if viol else ("undecided" if ctx.analysis_errors else "silent")
        return (pid, rel, qual, desc, out, "")
    except Exception as e:  # noqa
        import traceback
        from sa.model import AnchorMissing
        if isinstance(e, AnchorMissing):
            return (pid, rel, qual, desc, "undecided", "anchor")
        return (pid, rel, qual, desc, "CRASH", traceback.format_exc()[-600:])


if __name__ == "__main__":
    argv = sys.argv[1:]
    n, seed, pids, mech = 30, 1, [], False
    i = 0
    while i < len(argv):
        if argv[i] == "--n": n = int(argv[i + 1]); i += 2
        elif argv[i] == "--seed": seed = int(argv[i + 1]); i += 2
        elif argv[i] == "--pid": pids.append(argv[i + 1]); i += 2
        elif argv[i] == "--mechanisms": mech = True; i += 1
        else: i += 1
    man = json.load(open("/verif/MANIFEST.json"))
    pids = pids or [c["property_id"] for c in man["checks"]]
    rng = random.Random(seed)
    work = []
    for pid in pids:
        p, touched = looked_at(pid)
        byk = {f.key: f for f in p.all_functions()}
        fs = [byk[k] for k in sorted(touched) if k in byk and not byk[k].module.relpath.startswith("autoarray/plot") and "mock" not in byk[k].module.relpath]
        if len(fs) > 400:   # effect-engine properties look at everything: sample among the anchor files only
            props = {json.loads(l)["id"]: json.loads(l) for l in open("/verif/properties.jsonl")}
            files = set(props[pid]["anchors"]["files"])
            fs = [f for f in fs if f.module.relpath in files]
        if mech:
            import re as _re
            props = {json.loads(l)["id"]: json.loads(l) for l in open("/verif/properties.jsonl")}
            names = set(_re.findall(r"(?:\d+ )([A-Za-z_][A-Za-z_0-9\.]+)", json.dumps(props[pid]["anchors"]["mechanism"])))
            names = {x.split(".")[-1] for x in names}
            fs2 = [f for f in fs if f.name in names]
            fs = fs2 or fs
        for _ in range(n):
            f = rng.choice(fs)
            work.append((pid, f.module.relpath, f.qualname, rng.randrange(10 ** 6)))
    with mp.Pool(16) as pool:
        res = [r for r in pool.map(run, work) if r is not None]
    tally = {}
    for pid, rel, qual, desc, out, tb in res:
        tally.setdefault(pid, {}).setdefault(out, []).append((rel, qual, desc, tb))
    for pid in pids:
        t = tally.get(pid, {})
        print(f"{pid}: " + ", ".join(f"{k} {len(v)}" for k, v in sorted(t.items())))
        for rel, qual, desc, tb in t.get("CRASH", []):
            print("   CRASH", rel, qual, desc); print("      " + tb.replace("\n", "\n      ")[-500:])
    json.dump({pid: {k: [x[:3] for x in v] for k, v in t.items()} for pid, t in tally.items()}, open("/tmp/mutfuzz_last.json", "w"), indent=1)
