#!/venv/bin/python
"""confirm_twin.py <seed id> [agent dir]
A TWIN is the corrected version of a stored seed: the same restructuring (helpers, vectorisation, fast path, merged branches ...) with the seed's one defective detail repaired.
Seed and twin together are the sharpest test of a rule: it must report the seed and stay silent on the twin.
Independently confirm a sub-agent's twin in a fresh scratch worktree of /repo: the twin's differential script prints the same digest on the clean and on the twin tree, the SEED's
demo (which fails on the seed) passes on the twin, and the pinned baseline tests pass.  If confirmed, store it as /verif/twins/<seed id>/ (patch.diff, equiv.py, notes, meta.json)."""
import json, os, re, shutil, subprocess, sys
seed = sys.argv[1]
wt = sys.argv[2] if len(sys.argv) > 2 else f"/tmp/wt8/{seed}"
patch, equiv, demo = os.path.join(wt, "twin.patch"), os.path.join(wt, "equiv.py"), f"/verif/seeded/{seed}/demo.py"
assert os.path.exists(patch) and os.path.exists(equiv) and os.path.exists(demo), "missing deliverables"
scratch = f"/tmp/confirm_twin_{seed}"
subprocess.run(["git", "-C", "/repo", "worktree", "remove", "--force", scratch], capture_output=True)
subprocess.run(["git", "-C", "/repo", "worktree", "add", "-q", "--detach", scratch, "HEAD"], check=True)
res = {}
def run(script, name):
    local = os.path.join(scratch, name); shutil.copy(script, local)
    p = subprocess.run(["/venv/bin/python", "-W", "ignore", local], cwd=scratch, capture_output=True, text=True, env={**os.environ, "PYTHONPATH": scratch}, timeout=1800)
    os.remove(local)
    return p.returncode, p.stdout
def digest(out):
    return "\n".join(l for l in out.splitlines() if re.search(r"[0-9a-f]{40,64}", l))[-600:]
try:
    rc, out = run(equiv, "_equiv_under_test.py"); res["clean_rc"], res["clean_digest"] = rc, digest(out)
    ap = subprocess.run(["git", "-C", scratch, "apply", "--whitespace=nowarn", patch], capture_output=True, text=True)
    res["apply_rc"] = ap.returncode; res["apply_err"] = ap.stderr[-300:]
    if ap.returncode == 0:
        st = subprocess.run(["git", "-C", scratch, "diff", "--stat"], capture_output=True, text=True).stdout
        res["diff_stat"] = st.strip().splitlines()[-1] if st.strip() else ""
        rc, out = run(equiv, "_equiv_under_test.py"); res["twin_rc"], res["twin_digest"] = rc, digest(out)
        rc, out = run(demo, "_demo_under_test.py"); res["seed_demo_on_twin_rc"] = rc
        b = subprocess.run(["/venv/bin/python", "/verif/tools/baseline_check.py", scratch], capture_output=True, text=True)
        res["baseline_rc"] = b.returncode; res["baseline_out"] = b.stdout.strip().splitlines()[:2]
finally:
    subprocess.run(["git", "-C", "/repo", "worktree", "remove", "--force", scratch], capture_output=True)
ok = res.get("clean_rc") == 0 and res.get("apply_rc") == 0 and res.get("twin_rc") == 0 and res.get("clean_digest") == res.get("twin_digest") and res.get("clean_digest", "").strip() != "" \
    and res.get("seed_demo_on_twin_rc") == 0 and res.get("baseline_rc") == 0
res["confirmed"] = bool(ok)
print(json.dumps(res, indent=1))
if ok:
    d = f"/verif/twins/{seed}"
    os.makedirs(d, exist_ok=True)
    shutil.copy(patch, os.path.join(d, "patch.diff")); shutil.copy(equiv, os.path.join(d, "equiv.py"))
    np_ = os.path.join(wt, "TWIN_NOTES.md")
    if os.path.exists(np_):
        shutil.copy(np_, os.path.join(d, "agent_notes.md"))
    json.dump({"twin_of": seed, "property": seed.split("-")[0], "source": "sub-agent given the seed (patch, demo, notes) and a scratch worktree, asked for the same restructuring with the defect repaired",
               "confirmed_by": "tools/confirm_twin.py: identical differential digest on clean and twin tree, the seed's demo passes on the twin, baseline tests pass", "diff": res.get("diff_stat"),
               "digest": res.get("clean_digest", "")[-200:], "repo_head": subprocess.run(["git", "-C", "/repo", "rev-parse", "--short", "HEAD"], capture_output=True, text=True).stdout.strip()},
              open(os.path.join(d, "meta.json"), "w"), indent=1)
    print("stored", d)
sys.exit(0 if ok else 1)
