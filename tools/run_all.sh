#!/bin/sh
# run every claimed check (quick, or the tier given as $1) on the current tree and summarise
cd /verif
tier=${1:-quick}
for pid in $(/venv/bin/python -c "import json;print(' '.join(c['property_id'] for c in json.load(open('MANIFEST.json'))['checks']))"); do
  out=$(./check $pid --tier $tier 2>&1); rc=$?
  echo "$pid rc=$rc $(echo "$out" | head -1)"
  [ $rc -ne 0 ] && echo "$out" | grep -E "VIOLATION|ANALYSIS-ERROR|^  " | head -6
done
