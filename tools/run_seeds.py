#!/venv/bin/python
"""run_seeds.py [seed ...]  - apply each stored seed to /repo, run the quick command of every claimed check, undo, record who caught it."""
import json, os, subprocess, sys, glob
os.chdir("/verif")
man = json.load(open("MANIFEST.json"))
pids = [c["property_id"] for c in man["checks"]]
seeds = sys.argv[1:] or sorted(os.path.basename(d) for d in glob.glob("seeded/C*-*"))
assert subprocess.run(["git", "-C", "/repo", "status", "--porcelain", "--untracked-files=no"], capture_output=True, text=True).stdout.strip() == "", "/repo not clean"
results = json.load(open("seeded/results.json")) if os.path.exists("seeded/results.json") else {}
for s in seeds:
    d = f"seeded/{s}"
    ap = subprocess.run(["git", "-C", "/repo", "apply", "--whitespace=nowarn", os.path.abspath(f"{d}/patch.diff")], capture_output=True, text=True)
    if ap.returncode != 0:
        print(s, "PATCH DOES NOT APPLY", ap.stderr[-200:]); results[s] = {"error": "patch does not apply"}; continue
    try:
        caught, lines = [], {}
        from concurrent.futures import ThreadPoolExecutor
        with ThreadPoolExecutor(16) as ex:   # the 20 checks of one seed run side by side (each is its own process, all read the same patched tree)
            runs = list(ex.map(lambda pid: (pid, subprocess.run(["./check", pid, "--tier", "quick", "--no-evidence"], capture_output=True, text=True)), pids))
        for pid, r in runs:
            if r.returncode == 1:
                caught.append(pid)
                lines[pid] = [l.strip() for l in r.stdout.splitlines() if l.startswith("  ")][:2]
            elif r.returncode == 2:
                lines[pid] = ["EXIT 2: " + " | ".join(l for l in r.stdout.splitlines() if "ANALYSIS-ERROR" in l)[:300]]
    finally:
        subprocess.run(["git", "-C", "/repo", "checkout", "--", "."], check=True)
    target = json.load(open(f"{d}/meta.json"))["property"]
    results[s] = {"target": target, "caught_by": caught, "caught_by_target": target in caught, "reports": lines}
    print(s, "target", target, "caught by", caught or "NOBODY", "" if target in caught else ("(target not claimed yet)" if target not in pids else "MISSED BY TARGET"))
    for pid, ls in lines.items():
        for l in ls: print("    ", pid, l[:230])
json.dump(results, open("seeded/results.json", "w"), indent=1, sort_keys=True)
