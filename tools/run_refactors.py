#!/venv/bin/python
"""run_refactors.py [id ...] - apply each stored behaviour-preserving refactor to /repo, run the quick command of every claimed check, undo.
Every non-zero exit is a defect of the CHECKER: exit 1 = false alarm, exit 2 = a rule lost sight of its anchor.  Results in refactors/results.json."""
import json, os, subprocess, sys, glob
from concurrent.futures import ThreadPoolExecutor
os.chdir("/verif")
man = json.load(open("MANIFEST.json"))
pids = [c["property_id"] for c in man["checks"]]
if os.environ.get("VERIF_PIDS"):   # restrict to some checks (results.json is then left alone)
    pids = [x for x in pids if x in os.environ["VERIF_PIDS"].split(",")]
# ids: "Cxx-n" = refactors/Cxx-n (behaviour-preserving refactor), "twin-Cxx-n" = twins/Cxx-n (corrected twin of seed Cxx-n)
ids = sys.argv[1:] or sorted(os.path.basename(d) for d in glob.glob("refactors/C*-*")) + sorted("twin-" + os.path.basename(d) for d in glob.glob("twins/C*-*"))
assert subprocess.run(["git", "-C", "/repo", "status", "--porcelain", "--untracked-files=no"], capture_output=True, text=True).stdout.strip() == "", "/repo not clean"
results = json.load(open("refactors/results.json")) if os.path.exists("refactors/results.json") else {}
for s in ids:
    d = f"twins/{s[5:]}" if s.startswith("twin-") else f"refactors/{s}"
    ap = subprocess.run(["git", "-C", "/repo", "apply", "--whitespace=nowarn", os.path.abspath(f"{d}/patch.diff")], capture_output=True, text=True)
    if ap.returncode != 0:
        print(s, "PATCH DOES NOT APPLY", ap.stderr[-200:]); results[s] = {"error": "patch does not apply"}; continue
    try:
        with ThreadPoolExecutor(16) as ex:
            runs = list(ex.map(lambda pid: (pid, subprocess.run(["./check", pid, "--tier", "quick", "--no-evidence"], capture_output=True, text=True)), pids))
    finally:
        subprocess.run(["git", "-C", "/repo", "checkout", "--", "."], check=True)
    alarms = {pid: [l.strip()[:300] for l in r.stdout.splitlines() if l.startswith("  ")][:3] for pid, r in runs if r.returncode == 1}
    blind = {pid: [l.strip()[:300] for l in r.stdout.splitlines() if "ANALYSIS-ERROR" in l][:3] for pid, r in runs if r.returncode == 2}
    results[s] = {"false_alarms": alarms, "analysis_errors": blind}
    print(s, "silent" if not alarms and not blind else f"FALSE ALARM {sorted(alarms)} / EXIT-2 {sorted(blind)}")
    for pid, ls in list(alarms.items()) + list(blind.items()):
        for l in ls: print("    ", pid, l[:260])
if not os.environ.get("VERIF_PIDS"):
    json.dump(results, open("refactors/results.json", "w"), indent=1, sort_keys=True)
